#!/bin/bash
# Runs the repository's pinned test suite (guard OFF: /repo carries no hooks) and
# prints a pass/fail summary. Usage: run_baseline.sh [repo-dir]
REPO=${1:-/repo}
export GOPROXY=off GOSUMDB=off GOTOOLCHAIN=local; unset GOFLAGS
fail=0; pass=0
for m in . ./tests ./tests/helpers/other; do
  [ -d "$REPO/$m" ] || continue
  out=$(cd "$REPO/$m" && go test -json -vet=off -count=1 -timeout 25m ./... 2>&1)
  p=$(printf '%s\n' "$out" | grep -c '"Action":"pass","Package":"[^"]*","Test"')
  f=$(printf '%s\n' "$out" | grep -c '"Action":"fail"')
  pass=$((pass+p)); fail=$((fail+f))
  if [ "$p" = 0 ] && [ "$m" != "./tests/helpers/other" ]; then printf '%s\n' "$out" | tail -5 >&2; fi
  if [ "$f" != 0 ]; then printf '%s\n' "$out" | grep '"Action":"fail"' | head -20; printf '%s\n' "$out" | grep '"Output"' | grep -v '^\s*$' | tail -40; fi
done
(cd "$REPO" && git checkout -q go.work.sum 2>/dev/null)
echo "baseline: passed=$pass failed=$fail"
[ "$fail" = 0 ] && [ "$pass" -ge 204 ]
