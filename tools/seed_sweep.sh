#!/bin/bash
# seed_sweep.sh <tier> <seed>...: run every claimed check on /repo (or $VERIF_REPO) for several seeds and report exit codes;
# any non-zero exit on the unchanged tree is a false alarm or harness trouble to be looked at.
TIER=${1:-quick}; shift
bad=0
for s in "$@"; do for p in C12 C18 C20 C10; do
  out=$(VERIF_EVIDENCE_DIR=${SWEEP_EVIDENCE:-/tmp/sweep-evidence} VERIF_REPLAY_DIR=${SWEEP_REPLAYS:-/tmp/sweep-replays} ${SIMCHECK:-/verif/bin/simcheck} $p -tier $TIER -seed $s ${SWEEP_ARGS:-} 2>&1); rc=$?
  echo "$p seed=$s rc=$rc $(printf '%s\n' "$out" | grep '^simcheck' | cut -c1-150)"
  if [ $rc != 0 ]; then bad=1; printf '%s\n' "$out" | grep -v KNOWN | grep "violation\|VIOLATION\|harness\|fidelity\|selftest:" | cut -c1-300 | head -8; fi
done; done
exit $bad
