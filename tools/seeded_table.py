#!/usr/bin/env python3
"""Regenerate the table of seeded changes in DESIGN.md (between the seeded-table markers)
from /verif/seeded/*/meta.json. Usage: tools/seeded_table.py [--write]"""
import glob, json, re, sys
rows = []
for f in sorted(glob.glob('/verif/seeded/*/meta.json')):
    m = json.load(open(f))
    ch = m['change'].replace('|', '\\|').replace('\n', ' ')
    if len(ch) > 150:
        ch = ch[:147] + '...'
    res = m.get('checks', {}).get('result', '').replace('|', '\\|').replace('\n', ' ')
    rows.append(f"| {m['id']} | {m.get('checked_with', m['property'])} | {ch} | {res} |")
tbl = "| id (`/verif/seeded/<id>/`) | prop | change | caught by / what it took |\n|---|---|---|---|\n" + "\n".join(rows) + "\n"
if '--write' in sys.argv:
    p = '/verif/DESIGN.md'
    s = open(p).read()
    s2, n = re.subn(r'(<!-- seeded-table-begin -->\n).*?(<!-- seeded-table-end -->)', lambda mo: mo.group(1) + tbl + mo.group(2), s, flags=re.S)
    if n != 1:
        sys.exit('markers not found')
    open(p, 'w').write(s2)
    print(f'{len(rows)} rows written')
else:
    sys.stdout.write(tbl)
