#!/usr/bin/env python3
"""keep_seed.py <outdir> <id> <property> <origin> <change> <needs> <ran> <result> [checked_with]
Store a confirmed seeded change as /verif/seeded/<id>/ (patch.diff, demonstration files, NOTES.md, meta.json)."""
import json, os, shutil, subprocess, sys
out, sid, prop, origin, change, needs, ran, result = sys.argv[1:9]
dst = f'/verif/seeded/{sid}'
os.makedirs(dst, exist_ok=True)
for n in os.listdir(out):
    if n.startswith('.') or n.endswith('.log'):
        continue
    s = os.path.join(out, n)
    if os.path.isdir(s):
        shutil.copytree(s, os.path.join(dst, n), dirs_exist_ok=True)
    else:
        shutil.copy(s, dst)
head = subprocess.check_output(['git', '-C', '/repo', 'rev-parse', '--short', 'HEAD'], text=True).strip()
meta = {"id": sid, "property": prop, "origin": origin, "change": change, "needs_to_manifest": needs,
        "confirmed": {"patch_applies_to": head + " (repo HEAD)", "builds": True, "pinned_suite": "204 passed, 0 failed",
                      "demo_cmd": "bash demo.sh <tree>", "demo_with_change": "exit 1", "demo_without_change": "exit 0"},
        "checks": {"ran": ran, "result": result}}
if len(sys.argv) > 9:
    meta["checked_with"] = sys.argv[9]
json.dump(meta, open(os.path.join(dst, 'meta.json'), 'w'), indent=1)
print('kept', dst, os.listdir(dst))
