#!/bin/bash
# reach.sh <PROP> [simcheck args]: which statements of go-jsonschema do the simulated runs of one check reach?
# Builds the instrumented copy with -cover, runs the check in census mode against it and prints per-function
# coverage of the repository's own packages (the instrumented copy keeps file names; line numbers may shift by a few).
# A diagnostic for the world generator ("a probe stuck at zero means the workload must change"), not a check.
set -e
export GOFLAGS=-mod=mod GOPROXY=off GOSUMDB=off GOTOOLCHAIN=local GOWORK=off CGO_ENABLED=0
PROP=$1; shift
W=$(mktemp -d /tmp/reach.XXXXXX)
trap 'rm -rf "$W"' EXIT
mkdir -p $W/bin $W/data $W/merged
/verif/bin/instrument -repo ${VERIF_REPO:-/repo} -out $W/scratch -simrt /verif/sim/simrt -bin $W/bin -keep >/dev/null
(cd $W/scratch/src && go build -cover -covermode=set -coverpkg=github.com/atombender/go-jsonschema/... -trimpath -o $W/bin/simbin . 2>/dev/null)
VERIF_BINS=$W/bin GOCOVERDIR=$W/data VERIF_EVIDENCE_DIR=$W/ev VERIF_REPLAY_DIR=$W/rp /verif/bin/simcheck $PROP -census "$@" 2>&1 | grep -v '^KNOWN\|^census' | tail -1
go tool covdata merge -i=$W/data -o=$W/merged 2>/dev/null
go tool covdata textfmt -i=$W/merged -o=$W/cover.out
cp $W/cover.out ${REACH_OUT:-/tmp/reach-$PROP.out}
(cd $W/scratch/src && go tool cover -func=$W/cover.out) | sed 's#github.com/atombender/go-jsonschema/##' > ${REACH_OUT:-/tmp/reach-$PROP.out}.func
tail -1 ${REACH_OUT:-/tmp/reach-$PROP.out}.func
# keep the instrumented sources for line lookup if asked
[ -n "$REACH_KEEP" ] && rm -rf "$REACH_KEEP" && cp -r $W/scratch/src "$REACH_KEEP"
exit 0
