#!/bin/bash
# verify_seed.sh <n> <demo command...>: confirm a sub-agent's seeded change in /tmp/seedwt<n>:
# patch == worktree diff, builds, pinned suite passes, demo fails with the change and passes without.
n=$1; shift
WT=/tmp/seedwt$n; OUT=${SEED_OUT:-/tmp/seed-out/a$n}
export GOPROXY=off GOSUMDB=off GOTOOLCHAIN=local
git -C $WT checkout -q go.work.sum 2>/dev/null
if diff <(git -C $WT diff) $OUT/patch.diff >/dev/null; then echo "patch==worktree diff: yes"; else echo "patch==worktree diff: NO"; fi
echo "changed files: $(git -C $WT diff --stat | tail -1)"
(cd $WT && go build ./...) && echo "build: ok" || echo "build: FAIL"
git -C $WT checkout -q go.work.sum 2>/dev/null
/verif/run_baseline.sh $WT | tail -1
( "$@" ) >$OUT/demo_with.log 2>&1; echo "demo with change: exit=$?"
git -C $WT checkout -q go.work.sum 2>/dev/null
git -C $WT diff > $OUT/.saved.diff; git -C $WT checkout -q -- .   # (no git stash: the stash is shared by all worktrees)
( "$@" ) >$OUT/demo_without.log 2>&1; echo "demo without change: exit=$?"
git -C $WT checkout -q go.work.sum 2>/dev/null
git -C $WT apply $OUT/.saved.diff; rm -f $OUT/.saved.diff
git -C $WT status --short | head -5
