#!/bin/bash
# mutrun.sh <patch.diff> <prop> [extra simcheck args]: apply a patch to the scratch worktree /tmp/wt-mut
# (created with: git -C /repo worktree add /tmp/wt-mut HEAD), run one check against it, revert.
set -u
P=$1; ID=$2; shift 2
WT=${MUT_WT:-/tmp/wt-mut}
git -C $WT checkout -q -- . && git -C $WT clean -fdq
git -C $WT apply "$P" || { echo "patch does not apply"; exit 3; }
(cd $WT && GOPROXY=off GOSUMDB=off GOTOOLCHAIN=local go build ./... ) || { echo "does not build"; git -C $WT checkout -q -- .; exit 3; }
VERIF_EVIDENCE_DIR=/tmp/mut-evidence VERIF_REPLAY_DIR=/tmp/mut-replays VERIF_REPO=$WT /verif/bin/simcheck $ID -tier quick "$@" 2>&1 | grep -v "^  \|^github.com\|^runtime\|^$\|^\s" | cut -c1-220 | head -14
rc=${PIPESTATUS[0]}
git -C $WT checkout -q -- . ; git -C $WT clean -fdq
echo "exit=$rc"
