#!/bin/bash
# run_seeded.sh [secs]: apply every seeded change to the scratch worktree (/tmp/wt-mut, created on demand from /repo's HEAD),
# run the check of the property it breaks (quick tier) against it, revert, and print a catch matrix.
# Nothing is ever applied to /repo itself.
SECS=${1:-40}
WT=${MUT_WT:-/tmp/wt-mut}
[ -d "$WT" ] || git -C /repo worktree add -q "$WT" HEAD
git -C "$WT" checkout -q --detach "$(git -C /repo rev-parse HEAD)"
for d in /verif/seeded/*/; do
  id=$(basename "$d"); prop=$(python3 -c "import json;m=json.load(open('$d/meta.json'));print(m.get('checked_with',m['property']))")
  git -C "$WT" reset -q --hard HEAD; git -C "$WT" clean -fdq
  if ! git -C "$WT" apply --3way "$d/patch.diff" 2>/dev/null; then echo "$id $prop PATCH-DOES-NOT-APPLY"; git -C "$WT" reset -q --hard HEAD; continue; fi
  git -C "$WT" reset -q
  if ! (cd "$WT" && GOPROXY=off GOSUMDB=off GOTOOLCHAIN=local go build ./... 2>/dev/null); then echo "$id $prop DOES-NOT-BUILD"; git -C "$WT" reset -q --hard HEAD; continue; fi
  out=$(VERIF_EVIDENCE_DIR=/tmp/mut-evidence VERIF_REPLAY_DIR=/tmp/mut-replays VERIF_REPO=$WT /verif/bin/simcheck $prop -tier quick -secs $SECS 2>&1)
  rc=$?
  first=$(printf '%s\n' "$out" | grep '^violation:' | head -1 | cut -c1-110)
  n=$(printf '%s\n' "$out" | grep -c '^VIOLATION')
  echo "$id $prop exit=$rc violations=$n $first"
  git -C "$WT" reset -q --hard HEAD; git -C "$WT" clean -fdq
done
