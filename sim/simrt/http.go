package simrt

import (
	"errors"
	"io"
	"net/http"
	"strconv"
	"strings"
)

// transport serves the spec's virtual web through the seam the program already
// has: a zero http.Client uses http.DefaultTransport.
type transport struct{}

var errNet = errors.New("simulated transport error: connection reset by peer")

func (transport) RoundTrip(req *http.Request) (*http.Response, error) {
	seq, flt, fi := w.step()
	url := req.URL.String()
	if flt != nil && (flt.Kind == "neterr" || faultErrno(flt) != 0) {
		w.done(seq, "http", url, 0, errNet, flt, fi, true)
		return nil, errNet
	}
	if flt != nil && strings.HasPrefix(flt.Kind, "status:") {
		// the server answers, but not with the document: an error status with a small JSON body, as APIs and
		// gateways send them
		code := strings.TrimPrefix(flt.Kind, "status:")
		schemaLike := strings.HasSuffix(code, "s")
		st, _ := strconv.Atoi(strings.TrimSuffix(code, "s"))
		b := []byte(`{"message": "` + http.StatusText(st) + `", "code": ` + strconv.Itoa(st) + `}`)
		if schemaLike {
			// ... or with a body that happens to be a schema (an API that answers every path with a description of
			// its error format): still not the document that was asked for
			b = []byte(`{"title": "Error", "type": "object", "properties": {"message": {"type": "string"}, "code": {"type": "integer"}}, "$defs": {}}`)
		}
		h := http.Header{}
		h.Set("Content-Type", "application/json")
		h.Set("Content-Length", strconv.Itoa(len(b)))
		w.done(seq, "http", url, 0, nil, flt, fi, true)
		return &http.Response{
			Status: strconv.Itoa(st) + " " + http.StatusText(st), StatusCode: st,
			Proto: "HTTP/1.1", ProtoMajor: 1, ProtoMinor: 1,
			Header: h, Body: &body{url: url, data: b}, ContentLength: int64(len(b)), Request: req,
		}, nil
	}
	for i := range w.spec.Web {
		e := &w.spec.Web[i]
		if e.URL != url {
			continue
		}
		st := e.Status
		if st == 0 {
			st = 200
		}
		h := http.Header{}
		if e.ContentType != "" {
			h.Set("Content-Type", e.ContentType)
		}
		h.Set("Content-Length", strconv.Itoa(len(e.Body)))
		if e.Location != "" {
			h.Set("Location", e.Location)
		}
		w.done(seq, "http", url, 0, nil, flt, fi, false)
		return &http.Response{
			Status: strconv.Itoa(st) + " " + http.StatusText(st), StatusCode: st,
			Proto: "HTTP/1.1", ProtoMajor: 1, ProtoMinor: 1,
			Header: h, Body: &body{url: url, data: e.Body}, ContentLength: int64(len(e.Body)), Request: req,
		}, nil
	}
	err := errors.New("simulated transport error: no such host")
	w.done(seq, "http", url, 0, err, flt, fi, false)
	return nil, err
}

type body struct {
	url  string
	data []byte
	off  int
	dead bool
}

func (b *body) Read(p []byte) (int, error) {
	seq, flt, fi := w.step()
	if b.dead {
		w.done(seq, "httpread", b.url, 0, errNet, flt, fi, false)
		return 0, errNet
	}
	if flt != nil && (flt.Kind == "neterr" || faultErrno(flt) != 0) {
		b.dead = true
		w.done(seq, "httpread", b.url, 0, errNet, flt, fi, true)
		return 0, errNet
	}
	if flt != nil && flt.Kind == "eof" {
		b.off = len(b.data)
		w.done(seq, "httpread", b.url, 0, io.ErrUnexpectedEOF, flt, fi, true)
		return 0, io.ErrUnexpectedEOF
	}
	if (flt != nil && flt.Kind == "stall" || w.spec.HeldOpen) && len(p) > 0 && b.off >= len(b.data) {
		stalled(seq, "httpread", b.url, flt, fi)
	}
	if b.off >= len(b.data) {
		w.done(seq, "httpread", b.url, 0, io.EOF, flt, fi, false)
		return 0, io.EOF
	}
	n := w.chunk(len(p))
	if n > len(b.data)-b.off {
		n = len(b.data) - b.off
	}
	copy(p, b.data[b.off:b.off+n])
	b.off += n
	w.done(seq, "httpread", b.url, n, nil, flt, fi, false)
	return n, nil
}

func (b *body) Close() error { return nil }

func init() { http.DefaultTransport = transport{} }
