package simrt

import (
	"encoding/json"
	"fmt"
	"io"
	"os"
	"runtime/debug"
	"syscall"
)

// Run is the process shell: the instrumenter renames the program's main to
// simMain and emits `func main() { simrt.Run(simMain) }`.
//
// The spec is read from the real stdin (the program only ever sees the simulated
// one), the result record is written to fd 3, real fds 1/2 carry the program's
// stdout/stderr (the shim forwards to them after fault checks, so output of
// uninstrumented libraries such as cobra interleaves correctly).
func Run(main func()) {
	debug.SetMaxStack(8 << 20) // runaway recursion becomes a fast "stack overflow" crash (the shipped default is 1 GB)
	// runaway allocation becomes a fast "out of memory" crash instead of eating the host
	// (the cooperative heap check in tick() normally fires first; this is the backstop)
	_ = syscall.Setrlimit(syscall.RLIMIT_AS, &syscall.Rlimit{Cur: 3 << 30, Max: 3 << 30})
	raw, err := io.ReadAll(os.Stdin)
	if err != nil {
		fmt.Fprintln(os.Stderr, "simrt: cannot read spec:", err)
		os.Exit(98)
	}
	var s Spec
	if err := json.Unmarshal(raw, &s); err != nil {
		fmt.Fprintln(os.Stderr, "simrt: bad spec:", err)
		os.Exit(98)
	}
	w.load(s)
	os.Args = append([]string{"go-jsonschema"}, s.Args...)
	defer func() {
		if r := recover(); r != nil {
			w.res.Panic = fmt.Sprint(r)
			w.res.Stack = string(debug.Stack())
			// what the Go runtime would print
			fmt.Fprintf(os.Stderr, "panic: %v\n\n%s", r, w.res.Stack)
			finish(2, false)
		}
	}()
	main()
	finish(0, true)
}

// Exit replaces os.Exit.
func Exit(code int) {
	seq, flt, fi := w.step()
	w.done(seq, "exit", "", code, nil, flt, fi, false)
	finish(code, false)
}

func finish(code int, returned bool) {
	w.res.Exit = code
	w.res.Returned = returned
	w.res.Steps = w.steps
	w.res.Ticks = w.ticks
	w.res.FS = w.snapshot()
	for i, f := range w.spec.Faults {
		if !w.fired[i] {
			w.res.Fired = append(w.res.Fired, Fired{Fault: f, Misfit: true, Op: "never-reached"})
		}
	}
	out := os.NewFile(3, "result")
	if out != nil {
		b, err := json.Marshal(&w.res)
		if err == nil {
			_, _ = out.Write(b)
		}
		_ = out.Close()
	}
	os.Exit(code)
}
