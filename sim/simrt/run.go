package simrt

import (
	"encoding/json"
	"fmt"
	"io"
	"os"
	"runtime/debug"
	"syscall"
	"time"
)

// Run is the process shell: the instrumenter renames the program's main to
// simMain and emits `func main() { simrt.Run(simMain) }`.
//
// The spec is read from the real stdin (the program only ever sees the simulated
// one), the result record is written to fd 3, real fds 1/2 carry the program's
// stdout/stderr (the shim forwards to them after fault checks, so output of
// uninstrumented libraries such as cobra interleaves correctly).
func Run(main func()) {
	debug.SetMaxStack(8 << 20) // runaway recursion becomes a fast "stack overflow" crash (the shipped default is 1 GB)
	// runaway allocation becomes a fast "out of memory" crash instead of eating the host
	// (the cooperative heap check in tick() normally fires first; this is the backstop)
	_ = syscall.Setrlimit(syscall.RLIMIT_AS, &syscall.Rlimit{Cur: 3 << 30, Max: 3 << 30})
	go cpuWatchdog()
	raw, err := io.ReadAll(os.Stdin)
	if err != nil {
		fmt.Fprintln(os.Stderr, "simrt: cannot read spec:", err)
		os.Exit(98)
	}
	var s Spec
	if err := json.Unmarshal(raw, &s); err != nil {
		fmt.Fprintln(os.Stderr, "simrt: bad spec:", err)
		os.Exit(98)
	}
	w.load(s)
	os.Args = append([]string{"go-jsonschema"}, s.Args...)
	defer func() {
		if r := recover(); r != nil {
			w.res.Panic = fmt.Sprint(r)
			w.res.Stack = string(debug.Stack())
			// what the Go runtime would print
			fmt.Fprintf(os.Stderr, "panic: %v\n\n%s", r, w.res.Stack)
			finish(2, false)
		}
	}()
	main()
	finish(0, true)
}

// cpuBudget: processor time one simulated run may use (ordinary runs need 5-30 ms). Computation that neither does
// I/O nor iterates a map is invisible to the tick budget; this is the bound for it. Processor time, not wall-clock
// time: a loaded machine does not change the verdict. (The orchestrator's 20 s wall-clock watchdog stays behind it.)
const cpuBudget = 5 * time.Second

func cpuWatchdog() {
	for {
		time.Sleep(25 * time.Millisecond)
		var ru syscall.Rusage
		if syscall.Getrusage(syscall.RUSAGE_SELF, &ru) != nil {
			continue
		}
		cpu := time.Duration(ru.Utime.Nano() + ru.Stime.Nano())
		if cpu > cpuBudget {
			// no access to the world from this goroutine: a minimal record, written directly
			if out := os.NewFile(3, "result"); out != nil {
				_, _ = out.Write([]byte(`{"exit":97,"overrun":true,"overrun_kind":"cpu","steps":0,"ticks":0,"fs":[]}`))
				_ = out.Close()
			}
			os.Exit(97)
		}
	}
}

// Exit replaces os.Exit.
func Exit(code int) {
	seq, flt, fi := w.step()
	w.done(seq, "exit", "", code, nil, flt, fi, false)
	finish(code, false)
}

func finish(code int, returned bool) {
	w.res.Exit = code
	w.res.Returned = returned
	w.res.Steps = w.steps
	w.res.Ticks = w.ticks
	w.res.FS = w.snapshot()
	for i, f := range w.spec.Faults {
		if !w.fired[i] {
			w.res.Fired = append(w.res.Fired, Fired{Fault: f, Misfit: true, Op: "never-reached"})
		}
	}
	out := os.NewFile(3, "result")
	if out != nil {
		b, err := json.Marshal(&w.res)
		if err == nil {
			_, _ = out.Write(b)
		}
		_ = out.Close()
	}
	os.Exit(code)
}

// LoadForStubCheck initialises the simulated world from a spec inside another process (the orchestrator's
// differential check of this shim against the real operating system). Not used by instrumented programs.
func LoadForStubCheck(s Spec) { w = &world{}; w.load(s) }

// SnapshotForStubCheck returns the simulated file system as it stands.
func SnapshotForStubCheck() []Node { return w.snapshot() }
