module verifsim/simrt

go 1.23
