package simrt

import (
	"errors"
	"io"
	"io/fs"
	"os"
	"path/filepath"
	"sort"
	"strings"
	"syscall"
	"time"
)

// File replaces *os.File in instrumented code.
type File struct {
	name    string
	n       *node
	std     int // 0 none, 1 stdin, 2 stdout, 3 stderr
	off     int
	rd, wr  bool
	app     bool
	closed  bool
	lostErr bool // a "lost" write happened: Close reports EIO
	dev     bool // opened through /dev/stdout and friends
}

var (
	Stdin  = &File{name: "/dev/stdin", std: 1, rd: true}
	Stdout = &File{name: "/dev/stdout", std: 2, wr: true}
	Stderr = &File{name: "/dev/stderr", std: 3, wr: true}
)

func (f *File) Name() string { return f.name }

func (f *File) Fd() uintptr {
	probe("File.Fd")
	switch f.std {
	case 1:
		return 0
	case 2:
		return 1
	case 3:
		return 2
	}
	return ^uintptr(0)
}

func (w *world) chunk(want int) int {
	if len(w.spec.Chunks) == 0 {
		return want
	}
	c := w.spec.Chunks[w.chunkI%len(w.spec.Chunks)]
	w.chunkI++
	if c <= 0 || c > want {
		return want
	}
	return c
}

func (f *File) Read(p []byte) (int, error) {
	if f == nil {
		return 0, os.ErrInvalid
	}
	seq, flt, fi := w.step()
	op := "read"
	if f.closed {
		err := pathErr("read", f.name, syscall.EBADF)
		err = &fs.PathError{Op: "read", Path: f.name, Err: os.ErrClosed}
		w.done(seq, op, f.name, 0, err, flt, fi, false)
		return 0, err
	}
	if len(p) == 0 && f.std == 0 && f.n.kind != 'd' {
		w.done(seq, op, f.name, 0, nil, flt, fi, false)
		return 0, nil // a zero-length read never reaches the system call
	}
	if !f.rd {
		err := pathErr("read", f.name, syscall.EBADF)
		w.done(seq, op, f.name, 0, err, flt, fi, false)
		return 0, err
	}
	if f.std == 0 && f.n.kind == 'd' {
		err := pathErr("read", f.name, syscall.EISDIR)
		w.done(seq, op, f.name, 0, err, flt, fi, false)
		return 0, err
	}
	if e := faultErrno(flt); e != 0 {
		err := pathErr("read", f.name, e)
		w.done(seq, op, f.name, 0, err, flt, fi, true)
		return 0, err
	}
	if flt != nil && flt.Kind == "eof" {
		f.off = 1 << 40 // the rest of the stream is gone
		w.done(seq, op, f.name, 0, io.EOF, flt, fi, true)
		return 0, io.EOF
	}
	var src []byte
	if f.std == 1 {
		src = w.spec.Stdin
	} else {
		src = f.n.data
	}
	if (flt != nil && flt.Kind == "stall" || w.spec.HeldOpen) && f.std == 1 && len(p) > 0 && f.off >= len(src) {
		stalled(seq, op, f.name, flt, fi)
	}
	if len(p) == 0 {
		w.done(seq, op, f.name, 0, nil, flt, fi, false)
		return 0, nil
	}
	if f.off >= len(src) {
		w.done(seq, op, f.name, 0, io.EOF, flt, fi, false)
		return 0, io.EOF
	}
	n := w.chunk(len(p))
	if n > len(src)-f.off {
		n = len(src) - f.off
	}
	copy(p, src[f.off:f.off+n])
	f.off += n
	w.done(seq, op, f.name, n, nil, flt, fi, false)
	return n, nil
}

func (f *File) Write(p []byte) (int, error) {
	if f == nil {
		return 0, os.ErrInvalid
	}
	seq, flt, fi := w.step()
	op := "write"
	if f.closed {
		err := &fs.PathError{Op: "write", Path: f.name, Err: os.ErrClosed}
		w.done(seq, op, f.name, 0, err, flt, fi, false)
		return 0, err
	}
	if !f.wr {
		err := pathErr("write", f.name, syscall.EBADF)
		w.done(seq, op, f.name, 0, err, flt, fi, false)
		return 0, err
	}
	n := len(p)
	var err error
	fitted := false
	if e := faultErrno(flt); e != 0 {
		n = flt.Arg
		if n < 0 {
			n = 0
		}
		if n > len(p) {
			n = len(p)
		}
		err = pathErr("write", f.name, e)
		fitted = true
	} else if flt != nil && flt.Kind == "short" {
		n = flt.Arg
		if n < 0 {
			n = 0
		}
		if n >= len(p) && len(p) > 0 {
			n = len(p) - 1
		}
		// os.File.Write turns a short write into io.ErrShortWrite
		err = io.ErrShortWrite
		fitted = true
	} else if flt != nil && flt.Kind == "lost" && f.std == 0 {
		f.lostErr = true
		w.done(seq, op, f.name, 0, nil, flt, fi, true)
		return len(p), nil
	}
	f.put(p[:n])
	w.done(seq, op, f.name, n, err, flt, fi, fitted)
	return n, err
}

func (f *File) put(p []byte) {
	switch f.std {
	case 2:
		w.res.OutBytes += len(p)
		_, _ = os.Stdout.Write(p)
	case 3:
		w.res.ErrBytes += len(p)
		_, _ = os.Stderr.Write(p)
	default:
		if f.app {
			f.off = len(f.n.data)
		}
		if f.off > len(f.n.data) {
			f.n.data = append(f.n.data, make([]byte, f.off-len(f.n.data))...)
		}
		// POSIX write: overwrite in place, extend if needed, keep whatever lies beyond
		if end := f.off + len(p); end > len(f.n.data) {
			f.n.data = append(f.n.data, make([]byte, end-len(f.n.data))...)
		}
		copy(f.n.data[f.off:], p)
		f.off += len(p)
	}
}

func (f *File) WriteString(s string) (int, error) { return f.Write([]byte(s)) }

func (f *File) Close() error {
	if f == nil {
		return os.ErrInvalid
	}
	seq, flt, fi := w.step()
	if f.closed {
		err := &fs.PathError{Op: "close", Path: f.name, Err: os.ErrClosed}
		w.done(seq, "close", f.name, 0, err, flt, fi, false)
		return err
	}
	f.closed = true
	var err error
	fitted := false
	if e := faultErrno(flt); e != 0 {
		err = pathErr("close", f.name, e)
		fitted = true
	} else if f.lostErr {
		err = pathErr("close", f.name, syscall.EIO)
	}
	w.done(seq, "close", f.name, 0, err, flt, fi, fitted)
	return err
}

func (f *File) Sync() error {
	seq, flt, fi := w.step()
	var err error
	if f.std != 0 {
		// the simulated standard streams are pipes: fsync(2) answers EINVAL
		err = pathErr("sync", f.name, syscall.EINVAL)
		w.done(seq, "sync", f.name, 0, err, flt, fi, false)
		return err
	}
	if e := faultErrno(flt); e != 0 {
		err = pathErr("sync", f.name, e)
	} else if f.lostErr {
		err = pathErr("sync", f.name, syscall.EIO)
	}
	w.done(seq, "sync", f.name, 0, err, flt, fi, err != nil && flt != nil)
	return err
}

func (f *File) Stat() (fs.FileInfo, error) {
	seq, flt, fi := w.step()
	if e := faultErrno(flt); e != 0 {
		err := pathErr("stat", f.name, e)
		w.done(seq, "fstat", f.name, 0, err, flt, fi, true)
		return nil, err
	}
	w.done(seq, "fstat", f.name, 0, nil, flt, fi, false)
	if f.std != 0 {
		return fileInfo{name: filepath.Base(f.name), n: &node{kind: 'f'}, mt: time.Unix(w.spec.Clock, 0).UTC()}, nil
	}
	return w.info(f.name, f.n), nil
}

func (f *File) Seek(offset int64, whence int) (int64, error) {
	probe("File.Seek")
	if f.closed {
		return 0, &fs.PathError{Op: "seek", Path: f.name, Err: os.ErrClosed}
	}
	if f.std != 0 {
		return 0, pathErr("seek", f.name, syscall.ESPIPE)
	}
	old := f.off
	switch whence {
	case io.SeekStart:
		f.off = int(offset)
	case io.SeekCurrent:
		f.off += int(offset)
	case io.SeekEnd:
		f.off = len(f.n.data) + int(offset)
	}
	if f.off < 0 {
		f.off = old // a failed seek leaves the position alone
		return 0, pathErr("seek", f.name, syscall.EINVAL)
	}
	return int64(f.off), nil
}

func (f *File) Truncate(size int64) error {
	probe("File.Truncate")
	if f.std != 0 || !f.wr {
		return pathErr("truncate", f.name, syscall.EINVAL)
	}
	if int(size) <= len(f.n.data) {
		f.n.data = f.n.data[:size]
	} else {
		f.n.data = append(f.n.data, make([]byte, int(size)-len(f.n.data))...)
	}
	return nil
}

func (f *File) ReadDir(n int) ([]fs.DirEntry, error) {
	if f.std != 0 || f.n.kind != 'd' {
		return nil, pathErr("readdirent", f.name, syscall.ENOTDIR)
	}
	// (*os.File).ReadDir / Readdir / Readdirnames return entries "in directory order" - whatever the file system
	// happens to keep, unlike os.ReadDir, which sorts. That order is a schedule like a map's: one map-order event.
	ents := dirEntries(f.name, f.n)
	if len(ents) >= 2 {
		idx := schedule(len(ents), "dirlist:(*os.File).ReadDir", false, func(i, j int) bool { return ents[i].Name() < ents[j].Name() })
		out := make([]fs.DirEntry, len(ents))
		for i, j := range idx {
			out[i] = ents[j]
		}
		ents = out
	}
	return ents, nil
}

func (f *File) Chmod(mode fs.FileMode) error { probe("File.Chmod"); return nil }

// ReadAt / WriteAt: positional I/O on regular files; one I/O step each (same fault kinds as Read / Write).
func (f *File) ReadAt(p []byte, off int64) (int, error) {
	if f == nil {
		return 0, os.ErrInvalid
	}
	seq, flt, fi := w.step()
	if f.closed || !f.rd || f.std != 0 || f.n.kind == 'd' || off < 0 {
		err := pathErr("read", f.name, syscall.EBADF)
		w.done(seq, "read", f.name, 0, err, flt, fi, false)
		return 0, err
	}
	if e := faultErrno(flt); e != 0 {
		err := pathErr("read", f.name, e)
		w.done(seq, "read", f.name, 0, err, flt, fi, true)
		return 0, err
	}
	if flt != nil && flt.Kind == "eof" || int(off) >= len(f.n.data) {
		w.done(seq, "read", f.name, 0, io.EOF, flt, fi, flt != nil && flt.Kind == "eof")
		return 0, io.EOF
	}
	n := copy(p, f.n.data[off:])
	var err error
	if n < len(p) {
		err = io.EOF
	}
	w.done(seq, "read", f.name, n, err, flt, fi, false)
	return n, err
}

func (f *File) WriteAt(p []byte, off int64) (int, error) {
	if f == nil {
		return 0, os.ErrInvalid
	}
	if f.std != 0 || f.app || off < 0 {
		return 0, pathErr("write", f.name, syscall.EINVAL)
	}
	save := f.off
	f.off = int(off)
	n, err := f.Write(p)
	f.off = save
	return n, err
}

func (f *File) Readdir(n int) ([]fs.FileInfo, error) {
	ents, err := f.ReadDir(n)
	var out []fs.FileInfo
	for _, e := range ents {
		fi, _ := e.Info()
		out = append(out, fi)
	}
	return out, err
}

func (f *File) Readdirnames(n int) ([]string, error) {
	ents, err := f.ReadDir(n)
	var out []string
	for _, e := range ents {
		out = append(out, e.Name())
	}
	return out, err
}

func (f *File) Chown(uid, gid int) error { probe("File.Chown"); return nil }

func (f *File) SetDeadline(t time.Time) error { return pathErr("SetDeadline", f.name, syscall.ENOTSUP) }
func (f *File) SetReadDeadline(t time.Time) error {
	return pathErr("SetDeadline", f.name, syscall.ENOTSUP)
}
func (f *File) SetWriteDeadline(t time.Time) error {
	return pathErr("SetDeadline", f.name, syscall.ENOTSUP)
}

// ---- os package level --------------------------------------------------------------

func Open(name string) (*File, error) { return OpenFile(name, os.O_RDONLY, 0) }

func Create(name string) (*File, error) {
	return OpenFile(name, os.O_RDWR|os.O_CREATE|os.O_TRUNC, 0o666)
}

func OpenFile(name string, flag int, perm fs.FileMode) (*File, error) {
	seq, flt, fi := w.step()
	write := flag&(os.O_WRONLY|os.O_RDWR|os.O_CREATE|os.O_TRUNC|os.O_APPEND) != 0
	op := "open"
	if write {
		op = "openw"
	}
	if e := faultErrno(flt); e != 0 {
		err := pathErr("open", name, e)
		w.done(seq, op, name, 0, err, flt, fi, true)
		return nil, err
	}
	// the device names of the standard streams (go-jsonschema -o /dev/stdout | gofmt): a second handle on the same
	// stream - a pipe or terminal, on which fsync, truncate and seek are invalid
	switch filepath.Clean(w.abs(name)) {
	case "/dev/stdout", "/dev/fd/1":
		w.done(seq, op, name, 0, nil, flt, fi, false)
		return &File{name: name, std: 2, wr: true, dev: true}, nil
	case "/dev/stderr", "/dev/fd/2":
		w.done(seq, op, name, 0, nil, flt, fi, false)
		return &File{name: name, std: 3, wr: true, dev: true}, nil
	case "/dev/stdin", "/dev/fd/0":
		w.done(seq, op, name, 0, nil, flt, fi, false)
		return &File{name: name, std: 1, rd: true, dev: true}, nil
	}
	n, parent, base, errno := w.lookup(name, true)
	if flag&os.O_CREATE != 0 && len(name) > 1 && strings.HasSuffix(name, "/") {
		// open("x/", O_CREAT): once the directory holding x is resolved the kernel answers EISDIR without
		// looking at x at all (file, directory, link or missing)
		dir := "."
		if t := trimSlash(name); strings.LastIndex(t, "/") == 0 {
			dir = "/"
		} else if i := strings.LastIndex(t, "/"); i > 0 {
			dir = t[:i]
		}
		switch d, _, _, e0 := w.lookup(dir, true); {
		case e0 != 0:
			errno, parent = e0, nil
		case d.kind != 'd':
			errno, parent = syscall.ENOTDIR, nil
		default:
			errno, parent = syscall.EISDIR, nil
		}
	}
	if flag&os.O_CREATE != 0 && flag&os.O_EXCL != 0 && errno != syscall.EISDIR {
		// O_EXCL does not follow a symbolic link in the last component: a dangling link "exists"
		if _, _, _, e2 := w.lookup(name, false); e2 == 0 {
			errno = syscall.EEXIST
		}
	}
	if errno == syscall.ENOENT && parent != nil && flag&os.O_CREATE != 0 {
		if len(name) > 1 && strings.HasSuffix(name, "/") {
			errno = syscall.EISDIR // open("x/", O_CREAT): a regular file cannot be named with a trailing slash
		} else {
			n = &node{kind: 'f'}
			parent.children[base] = n
			errno = 0
		}
	} else if errno == 0 && flag&os.O_CREATE != 0 && flag&os.O_EXCL != 0 {
		errno = syscall.EEXIST
	}
	if errno == 0 && n.kind == 'd' && flag&(os.O_WRONLY|os.O_RDWR) != 0 {
		errno = syscall.EISDIR
	}
	if errno != 0 {
		err := pathErr("open", name, errno)
		w.done(seq, op, name, 0, err, flt, fi, false)
		return nil, err
	}
	if flag&os.O_TRUNC != 0 && n.kind == 'f' {
		n.data = nil
	}
	f := &File{name: name, n: n, app: flag&os.O_APPEND != 0}
	switch {
	case flag&os.O_RDWR != 0:
		f.rd, f.wr = true, true
	case flag&os.O_WRONLY != 0:
		f.wr = true
	default:
		f.rd = true
	}
	w.done(seq, op, name, 0, nil, flt, fi, false)
	return f, nil
}

func ReadFile(name string) ([]byte, error) {
	f, err := Open(name)
	if err != nil {
		return nil, err
	}
	defer f.Close()
	return io.ReadAll(f)
}

func WriteFile(name string, data []byte, perm fs.FileMode) error {
	f, err := OpenFile(name, os.O_WRONLY|os.O_CREATE|os.O_TRUNC, perm)
	if err != nil {
		return err
	}
	_, err = f.Write(data)
	if err1 := f.Close(); err1 != nil && err == nil {
		err = err1
	}
	return err
}

func statLike(op, name string, follow bool) (fs.FileInfo, error) {
	seq, flt, fi := w.step()
	if e := faultErrno(flt); e != 0 {
		err := pathErr(op, name, e)
		w.done(seq, op, name, 0, err, flt, fi, true)
		return nil, err
	}
	n, _, _, errno := w.lookup(name, follow)
	if errno != 0 {
		err := pathErr(op, name, errno)
		w.done(seq, op, name, 0, err, flt, fi, false)
		return nil, err
	}
	w.done(seq, op, name, 0, nil, flt, fi, false)
	return w.info(name, n), nil
}

func Stat(name string) (fs.FileInfo, error)  { return statLike("stat", name, true) }
func Lstat(name string) (fs.FileInfo, error) { return statLike("lstat", name, false) }

func Readlink(name string) (string, error) {
	seq, flt, fi := w.step()
	if e := faultErrno(flt); e != 0 {
		err := pathErr("readlink", name, e)
		w.done(seq, "readlink", name, 0, err, flt, fi, true)
		return "", err
	}
	n, _, _, errno := w.lookup(name, false)
	if errno == 0 && n.kind != 'l' {
		errno = syscall.EINVAL
	}
	if errno != 0 {
		err := pathErr("readlink", name, errno)
		w.done(seq, "readlink", name, 0, err, flt, fi, false)
		return "", err
	}
	w.done(seq, "readlink", name, 0, nil, flt, fi, false)
	return n.target, nil
}

func Mkdir(name string, perm fs.FileMode) error {
	seq, flt, fi := w.step()
	if e := faultErrno(flt); e != 0 {
		err := pathErr("mkdir", name, e)
		w.done(seq, "mkdir", name, 0, err, flt, fi, true)
		return err
	}
	n, parent, base, errno := w.lookup(trimSlash(name), false) // mkdir does not follow a link in the last component
	if errno == 0 && n != nil {
		errno = syscall.EEXIST
	} else if errno == syscall.ENOENT && parent != nil {
		parent.children[base] = &node{kind: 'd', children: map[string]*node{}}
		errno = 0
	}
	var err error
	if errno != 0 {
		err = pathErr("mkdir", name, errno)
	}
	w.done(seq, "mkdir", name, 0, err, flt, fi, false)
	return err
}

// MkdirAll is one I/O step (the fault model does not distinguish which
// component failed); inside, it is the standard library's algorithm on the simulated tree.
func MkdirAll(path string, perm fs.FileMode) error {
	seq, flt, fi := w.step()
	if e := faultErrno(flt); e != 0 {
		err := pathErr("mkdir", path, e)
		w.done(seq, "mkdirall", path, 0, err, flt, fi, true)
		return err
	}
	err := w.mkdirAll(path)
	w.done(seq, "mkdirall", path, 0, err, flt, fi, false)
	return err
}

func (w *world) mkdirAll(path string) error {
	if n, _, _, errno := w.lookup(path, true); errno == 0 {
		if n.kind == 'd' {
			return nil
		}
		return pathErr("mkdir", path, syscall.ENOTDIR)
	}
	i := len(path)
	for i > 0 && path[i-1] == '/' {
		i--
	}
	j := i
	for j > 0 && path[j-1] != '/' {
		j--
	}
	if j > 1 {
		if err := w.mkdirAll(path[:j-1]); err != nil {
			return err
		}
	}
	n, parent, base, errno := w.lookup(trimSlash(path), false)
	switch {
	case errno == 0 && n != nil:
		errno = syscall.EEXIST
	case errno == syscall.ENOENT && parent != nil:
		parent.children[base] = &node{kind: 'd', children: map[string]*node{}}
		return nil
	}
	if n2, _, _, e2 := w.lookup(path, false); e2 == 0 && n2.kind == 'd' {
		return nil
	}
	return pathErr("mkdir", path, errno)
}

func trimSlash(p string) string {
	for len(p) > 1 && strings.HasSuffix(p, "/") {
		p = p[:len(p)-1]
	}
	return p
}

func Remove(name string) error {
	seq, flt, fi := w.step()
	if e := faultErrno(flt); e != 0 {
		err := pathErr("remove", name, e)
		w.done(seq, "remove", name, 0, err, flt, fi, true)
		return err
	}
	n, parent, base, errno := w.lookup(trimSlash(name), false)
	if errno == 0 && parent == nil {
		errno = syscall.EINVAL
	}
	if errno == 0 && n.kind != 'd' && len(name) > 1 && strings.HasSuffix(name, "/") {
		errno = syscall.ENOTDIR // "x/" names a directory; a file or a link (even to a directory) is not removed through it
	}
	if errno == 0 && n.kind == 'd' && len(n.children) > 0 {
		errno = syscall.ENOTEMPTY
	}
	var err error
	if errno != 0 {
		err = pathErr("remove", name, errno)
	} else {
		delete(parent.children, base)
	}
	w.done(seq, "remove", name, 0, err, flt, fi, false)
	return err
}

func RemoveAll(name string) error {
	seq, flt, fi := w.step()
	if e := faultErrno(flt); e != 0 {
		err := pathErr("unlinkat", name, e)
		w.done(seq, "removeall", name, 0, err, flt, fi, true)
		return err
	}
	_, parent, base, errno := w.lookup(name, false)
	if errno == 0 && parent != nil {
		delete(parent.children, base)
	}
	w.done(seq, "removeall", name, 0, nil, flt, fi, false)
	return nil
}

func Rename(oldpath, newpath string) error {
	seq, flt, fi := w.step()
	if e := faultErrno(flt); e != 0 {
		err := &os.LinkError{Op: "rename", Old: oldpath, New: newpath, Err: e}
		w.done(seq, "rename", oldpath, 0, err, flt, fi, true)
		return err
	}
	oldSlash := len(oldpath) > 1 && strings.HasSuffix(oldpath, "/")
	newSlash := len(newpath) > 1 && strings.HasSuffix(newpath, "/")
	n, op, ob, errno := w.lookup(trimSlash(oldpath), false)
	if errno == 0 && oldSlash && n.kind != 'd' {
		errno = syscall.ENOTDIR // "x/" must be a directory itself, not a file or a link
	}
	var err error
	if errno != 0 || op == nil {
		if errno == 0 {
			errno = syscall.EINVAL
		}
		err = &os.LinkError{Op: "rename", Old: oldpath, New: newpath, Err: errno}
	} else {
		dn, np, nb, e2 := w.lookup(trimSlash(newpath), false)
		if e2 == 0 && newSlash && dn.kind != 'd' {
			e2, np = syscall.ENOTDIR, nil
		}
		switch {
		case e2 != 0 && !(e2 == syscall.ENOENT && np != nil):
			err = &os.LinkError{Op: "rename", Old: oldpath, New: newpath, Err: e2}
		case e2 == 0 && dn.kind == 'd' && dn == n && oldpath != newpath:
			// one directory under two spellings: os.Rename lets the system call decide, which does nothing
		case e2 == 0 && dn.kind == 'd':
			// os.Rename refuses every other existing directory as destination
			err = &os.LinkError{Op: "rename", Old: oldpath, New: newpath, Err: syscall.EEXIST}
		case e2 == 0 && dn == n:
			// the same node under both names: nothing to do
		case e2 == 0 && n.kind == 'd':
			err = &os.LinkError{Op: "rename", Old: oldpath, New: newpath, Err: syscall.ENOTDIR}
		case e2 == 0 && np == nil:
			err = &os.LinkError{Op: "rename", Old: oldpath, New: newpath, Err: syscall.EINVAL}
		case n.kind == 'd' && isInside(n, np):
			err = &os.LinkError{Op: "rename", Old: oldpath, New: newpath, Err: syscall.EINVAL}
		case n.kind != 'd' && len(newpath) > 1 && strings.HasSuffix(newpath, "/"):
			err = &os.LinkError{Op: "rename", Old: oldpath, New: newpath, Err: syscall.ENOTDIR}
		default:
			delete(op.children, ob)
			np.children[nb] = n
		}
	}
	w.done(seq, "rename", oldpath, 0, err, flt, fi, false)
	return err
}

// isInside: is dir (or a directory below it) the node d?
func isInside(dir, d *node) bool {
	if dir == d {
		return true
	}
	for _, c := range dir.children {
		if c.kind == 'd' && isInside(c, d) {
			return true
		}
	}
	return false
}

type dirEntry struct{ fi fileInfo }

func (d dirEntry) Name() string               { return d.fi.name }
func (d dirEntry) IsDir() bool                { return d.fi.IsDir() }
func (d dirEntry) Type() fs.FileMode          { return d.fi.Mode().Type() }
func (d dirEntry) Info() (fs.FileInfo, error) { return d.fi, nil }

func dirEntries(dir string, n *node) []fs.DirEntry {
	names := make([]string, 0, len(n.children))
	for k := range n.children {
		names = append(names, k)
	}
	sort.Strings(names)
	out := make([]fs.DirEntry, 0, len(names))
	for _, k := range names {
		out = append(out, dirEntry{w.info(k, n.children[k])})
	}
	return out
}

func ReadDir(name string) ([]fs.DirEntry, error) {
	seq, flt, fi := w.step()
	if e := faultErrno(flt); e != 0 {
		err := pathErr("open", name, e)
		w.done(seq, "readdir", name, 0, err, flt, fi, true)
		return nil, err
	}
	n, _, _, errno := w.lookup(name, true)
	if errno == 0 && n.kind != 'd' {
		errno = syscall.ENOTDIR
	}
	if errno != 0 {
		err := pathErr("open", name, errno)
		w.done(seq, "readdir", name, 0, err, flt, fi, false)
		return nil, err
	}
	w.done(seq, "readdir", name, 0, nil, flt, fi, false)
	return dirEntries(name, n), nil
}

func Getwd() (string, error) {
	seq, flt, fi := w.step()
	if e := faultErrno(flt); e != 0 {
		err := os.NewSyscallError("getwd", e)
		w.done(seq, "getwd", "", 0, err, flt, fi, true)
		return "", err
	}
	w.done(seq, "getwd", w.cwd, 0, nil, flt, fi, false)
	return w.cwd, nil
}

func Chdir(dir string) error {
	seq, flt, fi := w.step()
	if e := faultErrno(flt); e != 0 {
		err := pathErr("chdir", dir, e)
		w.done(seq, "chdir", dir, 0, err, flt, fi, true)
		return err
	}
	n, _, _, errno := w.lookup(dir, true)
	if errno == 0 && n.kind != 'd' {
		errno = syscall.ENOTDIR
	}
	var err error
	if errno != 0 {
		err = pathErr("chdir", dir, errno)
	} else {
		p, e := evalSymlinks(w.abs(dir))
		if e == nil {
			w.cwd = p
		} else {
			w.cwd = w.abs(dir)
		}
	}
	w.done(seq, "chdir", dir, 0, err, flt, fi, false)
	return err
}

// ---- process / environment / clock ---------------------------------------------------

func probe(name string) {
	if w.res.Probes == nil {
		w.res.Probes = map[string]int{}
	}
	w.res.Probes[name]++
}

func Getenv(key string) string {
	probe("env")
	return w.spec.Env[key]
}

func LookupEnv(key string) (string, bool) {
	probe("env")
	v, ok := w.spec.Env[key]
	return v, ok
}

func Environ() []string {
	probe("env")
	keys := make([]string, 0, len(w.spec.Env))
	for k := range w.spec.Env {
		keys = append(keys, k)
	}
	sort.Strings(keys)
	out := make([]string, 0, len(keys))
	for _, k := range keys {
		out = append(out, k+"="+w.spec.Env[k])
	}
	return out
}

func ExpandEnv(s string) string { return os.Expand(s, Getenv) }

func Hostname() (string, error) { probe("hostname"); return w.spec.Host, nil }
func Getpid() int               { probe("pid"); return w.spec.Pid }
func Getppid() int              { probe("pid"); return w.spec.Pid - 1 }
func Getuid() int               { probe("uid"); return 1000 }
func Geteuid() int              { probe("uid"); return 1000 }
func Getgid() int               { probe("uid"); return 1000 }
func UserHomeDir() (string, error) {
	probe("env")
	if h := w.spec.Env["HOME"]; h != "" {
		return h, nil
	}
	return "", errors.New("$HOME is not defined")
}
func TempDir() string {
	probe("env")
	if d := w.spec.Env["TMPDIR"]; d != "" {
		return d
	}
	return "/tmp"
}
func Executable() (string, error) { probe("executable"); return "/usr/local/bin/go-jsonschema", nil }

// Clock: every read advances by one second so that a value that leaks into the
// output differs between two reads and between two runs with a different start.
func TimeNow() time.Time {
	probe("clock")
	t := time.Unix(w.spec.Clock+w.clockN, 0).UTC()
	w.clockN++
	return t
}
func TimeSince(t time.Time) time.Duration { return TimeNow().Sub(t) }
func TimeUntil(t time.Time) time.Duration { return t.Sub(TimeNow()) }
func TimeSleep(d time.Duration)           { probe("sleep"); w.clockN += int64(d / time.Second) }
func TimeAfter(d time.Duration) <-chan time.Time {
	probe("sleep")
	ch := make(chan time.Time, 1)
	w.clockN += int64(d / time.Second)
	ch <- TimeNow()
	return ch
}

// ---- filepath ---------------------------------------------------------------------------

func FilepathAbs(path string) (string, error) {
	if filepath.IsAbs(path) {
		return filepath.Clean(path), nil
	}
	wd, err := Getwd()
	if err != nil {
		return "", err
	}
	return filepath.Join(wd, path), nil
}

// FilepathEvalSymlinks is one I/O step; the walk itself follows Go's
// path/filepath.walkSymlinks on the simulated file system.
func FilepathEvalSymlinks(path string) (string, error) {
	seq, flt, fi := w.step()
	if e := faultErrno(flt); e != 0 {
		err := pathErr("lstat", path, e)
		w.done(seq, "evalsymlinks", path, 0, err, flt, fi, true)
		return "", err
	}
	p, err := evalSymlinks(path)
	w.done(seq, "evalsymlinks", path, 0, err, flt, fi, false)
	return p, err
}

func rawLstat(p string) (*node, error) {
	n, _, _, errno := w.lookup(p, false)
	if errno != 0 {
		return nil, pathErr("lstat", p, errno)
	}
	return n, nil
}

// evalSymlinks is a port of path/filepath.walkSymlinks (unix).
func evalSymlinks(path string) (string, error) {
	volLen := 0
	pathSeparator := "/"
	if len(path) > 0 && path[0] == '/' {
		volLen = 1
	}
	vol := path[:volLen]
	dest := vol
	linksWalked := 0
	for start, end := volLen, volLen; start < len(path); start = end {
		for start < len(path) && path[start] == '/' {
			start++
		}
		end = start
		for end < len(path) && path[end] != '/' {
			end++
		}
		if end == start {
			break
		} else if path[start:end] == "." {
			continue
		} else if path[start:end] == ".." {
			var r int
			for r = len(dest) - 1; r >= volLen; r-- {
				if dest[r] == '/' {
					break
				}
			}
			if r < volLen || dest[r+1:] == ".." {
				if len(dest) > volLen {
					dest += pathSeparator
				}
				dest += ".."
			} else {
				dest = dest[:r]
			}
			continue
		}
		if len(dest) > volLen && dest[len(dest)-1] != '/' {
			dest += pathSeparator
		}
		dest += path[start:end]
		n, err := rawLstat(dest)
		if err != nil {
			return "", err
		}
		if n.kind != 'l' {
			if n.kind != 'd' && end < len(path) {
				return "", syscall.ENOTDIR
			}
			continue
		}
		linksWalked++
		if linksWalked > 255 {
			return "", errors.New("EvalSymlinks: too many links")
		}
		link := n.target
		path = link + path[end:]
		v := 0
		if len(link) > 0 && link[0] == '/' {
			v = 1
		}
		if v > 0 {
			dest = link[:v]
			end = v
			volLen = v
		} else {
			var r int
			for r = len(dest) - 1; r >= volLen; r-- {
				if dest[r] == '/' {
					break
				}
			}
			if r < volLen {
				dest = vol
			} else {
				dest = dest[:r]
			}
			end = 0
		}
	}
	return filepath.Clean(dest), nil
}

func FilepathGlob(pattern string) ([]string, error) {
	probe("unmodelled:filepath.Glob")
	if !strings.ContainsAny(pattern, "*?[") {
		if _, _, _, e := w.lookup(pattern, false); e == 0 {
			return []string{pattern}, nil
		}
		return nil, nil
	}
	dir, pat := filepath.Split(pattern)
	d := dir
	if d == "" {
		d = "."
	}
	n, _, _, e := w.lookup(d, true)
	if e != 0 || n.kind != 'd' {
		return nil, nil
	}
	var out []string
	for _, de := range dirEntries(d, n) {
		if ok, _ := filepath.Match(pat, de.Name()); ok {
			out = append(out, dir+de.Name())
		}
	}
	return out, nil
}

func FilepathWalk(root string, fn filepath.WalkFunc) error {
	info, err := Lstat(root)
	if err != nil {
		return fn(root, nil, err)
	}
	err = walk(root, info, fn)
	if err == filepath.SkipDir || err == filepath.SkipAll {
		return nil
	}
	return err
}

func walk(path string, info fs.FileInfo, fn filepath.WalkFunc) error {
	if !info.IsDir() {
		return fn(path, info, nil)
	}
	ents, err := ReadDir(path)
	err1 := fn(path, info, err)
	if err != nil || err1 != nil {
		return err1
	}
	for _, e := range ents {
		fi, _ := e.Info()
		if err := walk(filepath.Join(path, e.Name()), fi, fn); err != nil {
			if !fi.IsDir() || err != filepath.SkipDir {
				return err
			}
		}
	}
	return nil
}

// stalled: the peer has sent everything it will ever send but keeps the stream open (a pipe whose writer lingers,
// an HTTP server that neither announces a length nor closes): a read at this point blocks for ever. The
// simulation ends the run there and reports it as non-termination.
func stalled(seq int, op, name string, flt *Fault, fi int) {
	w.done(seq, op, name, 0, nil, flt, fi, true)
	w.res.Overrun = true
	w.res.OverrunKind = "blocked-read"
	finish(97, false)
}
