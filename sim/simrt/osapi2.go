package simrt

import (
	"io/fs"
	"os"
	"path/filepath"
	"strconv"
	"strings"
	"syscall"
	"time"
)

// The rest of the os / filepath / ioutil surface a file-writing tool may reasonably start to use (atomic writes
// through a temporary file and a rename, permission fixes, symlinks): modelled so that such a change keeps running
// inside the simulated world instead of half inside, half outside it.

// metaOp is the common shape of a path operation that only needs the node to exist.
func metaOp(op, name string, follow bool, apply func(n *node) syscall.Errno) error {
	seq, flt, fi := w.step()
	if e := faultErrno(flt); e != 0 {
		err := pathErr(op, name, e)
		w.done(seq, op, name, 0, err, flt, fi, true)
		return err
	}
	n, _, _, errno := w.lookup(name, follow)
	if errno == 0 && apply != nil {
		errno = apply(n)
	}
	var err error
	if errno != 0 {
		err = pathErr(op, name, errno)
	}
	w.done(seq, op, name, 0, err, flt, fi, false)
	return err
}

func Chmod(name string, mode fs.FileMode) error { return metaOp("chmod", name, true, nil) }
func Chown(name string, uid, gid int) error     { return metaOp("chown", name, true, nil) }
func Lchown(name string, uid, gid int) error    { return metaOp("lchown", name, false, nil) }
func Chtimes(name string, atime, mtime time.Time) error {
	return metaOp("chtimes", name, true, nil)
}

func Truncate(name string, size int64) error {
	return metaOp("truncate", name, true, func(n *node) syscall.Errno {
		switch {
		case n.kind == 'd':
			return syscall.EISDIR
		case size < 0:
			return syscall.EINVAL
		case int(size) <= len(n.data):
			n.data = n.data[:size]
		default:
			n.data = append(n.data, make([]byte, int(size)-len(n.data))...)
		}
		return 0
	})
}

func linkLike(op, oldname, newname string, mk func() (*node, syscall.Errno)) error {
	seq, flt, fi := w.step()
	fail := func(e syscall.Errno, fitted bool) error {
		err := &os.LinkError{Op: op, Old: oldname, New: newname, Err: e}
		w.done(seq, op, newname, 0, err, flt, fi, fitted)
		return err
	}
	if e := faultErrno(flt); e != 0 {
		return fail(e, true)
	}
	_, parent, base, errno := w.lookup(newname, false)
	switch {
	case errno == 0:
		return fail(syscall.EEXIST, false)
	case errno != syscall.ENOENT || parent == nil:
		return fail(errno, false)
	}
	if strings.HasSuffix(newname, "/") {
		return fail(syscall.ENOENT, false)
	}
	n, e := mk()
	if e != 0 {
		return fail(e, false)
	}
	parent.children[base] = n
	w.done(seq, op, newname, 0, nil, flt, fi, false)
	return nil
}

func Symlink(oldname, newname string) error {
	return linkLike("symlink", oldname, newname, func() (*node, syscall.Errno) {
		if oldname == "" {
			return nil, syscall.ENOENT
		}
		return &node{kind: 'l', target: oldname}, 0
	})
}

// Link: both names denote the same node afterwards.
func Link(oldname, newname string) error {
	return linkLike("link", oldname, newname, func() (*node, syscall.Errno) {
		n, _, _, errno := w.lookup(oldname, false)
		if errno != 0 {
			return nil, errno
		}
		if n.kind == 'd' {
			return nil, syscall.EPERM
		}
		return n, 0
	})
}

func SameFile(a, b fs.FileInfo) bool {
	x, ok1 := a.(fileInfo)
	y, ok2 := b.(fileInfo)
	return ok1 && ok2 && x.n == y.n
}

// CreateTemp / MkdirTemp: the "random" part of the name is a per-run counter (the real one is random: one more
// source of nondeterminism the simulation owns).
func tempName(pattern string) string {
	w.tempN++
	r := strconv.Itoa(1000000 + w.tempN)
	if i := strings.LastIndex(pattern, "*"); i >= 0 {
		return pattern[:i] + r + pattern[i+1:]
	}
	return pattern + r
}

func CreateTemp(dir, pattern string) (*File, error) {
	if dir == "" {
		dir = TempDir()
	}
	if strings.ContainsRune(pattern, os.PathSeparator) {
		return nil, &fs.PathError{Op: "createtemp", Path: pattern, Err: os.ErrInvalid}
	}
	for try := 0; try < 100; try++ {
		name := filepath.Join(dir, tempName(pattern))
		f, err := OpenFile(name, os.O_RDWR|os.O_CREATE|os.O_EXCL, 0o600)
		if os.IsExist(err) {
			continue
		}
		return f, err
	}
	return nil, &fs.PathError{Op: "createtemp", Path: dir, Err: os.ErrExist}
}

func MkdirTemp(dir, pattern string) (string, error) {
	if dir == "" {
		dir = TempDir()
	}
	if strings.ContainsRune(pattern, os.PathSeparator) {
		return "", &fs.PathError{Op: "mkdirtemp", Path: pattern, Err: os.ErrInvalid}
	}
	for try := 0; try < 100; try++ {
		name := filepath.Join(dir, tempName(pattern))
		err := Mkdir(name, 0o700)
		if os.IsExist(err) {
			continue
		}
		if err != nil {
			return "", err
		}
		return name, nil
	}
	return "", &fs.PathError{Op: "mkdirtemp", Path: dir, Err: os.ErrExist}
}

func IoutilTempFile(dir, pattern string) (*File, error) { return CreateTemp(dir, pattern) }
func IoutilTempDir(dir, pattern string) (string, error) { return MkdirTemp(dir, pattern) }
func IoutilReadDir(name string) ([]fs.FileInfo, error) {
	ents, err := ReadDir(name)
	var out []fs.FileInfo
	for _, e := range ents {
		fi, _ := e.Info()
		out = append(out, fi)
	}
	return out, err
}

func Setenv(key, value string) error {
	probe("env")
	if key == "" || strings.ContainsAny(key, "=\x00") || strings.ContainsRune(value, 0) {
		return os.NewSyscallError("setenv", syscall.EINVAL)
	}
	if w.spec.Env == nil {
		w.spec.Env = map[string]string{}
	}
	w.spec.Env[key] = value
	return nil
}

func Unsetenv(key string) error { probe("env"); delete(w.spec.Env, key); return nil }
func Clearenv()                 { probe("env"); w.spec.Env = map[string]string{} }

func UserCacheDir() (string, error) {
	if d := Getenv("XDG_CACHE_HOME"); d != "" {
		return d, nil
	}
	h, err := UserHomeDir()
	if err != nil {
		return "", err
	}
	return filepath.Join(h, ".cache"), nil
}

func UserConfigDir() (string, error) {
	if d := Getenv("XDG_CONFIG_HOME"); d != "" {
		return d, nil
	}
	h, err := UserHomeDir()
	if err != nil {
		return "", err
	}
	return filepath.Join(h, ".config"), nil
}

// FilepathWalkDir: filepath.WalkDir over the simulated tree (lexical order, like the real one).
func FilepathWalkDir(root string, fn fs.WalkDirFunc) error {
	info, err := Lstat(root)
	if err != nil {
		err = fn(root, nil, err)
	} else {
		err = walkDir(root, dirEntry{info.(fileInfo)}, fn)
	}
	if err == filepath.SkipDir || err == filepath.SkipAll {
		return nil
	}
	return err
}

func walkDir(path string, d fs.DirEntry, fn fs.WalkDirFunc) error {
	if err := fn(path, d, nil); err != nil || !d.IsDir() {
		if err == filepath.SkipDir && d.IsDir() {
			err = nil
		}
		return err
	}
	ents, err := ReadDir(path)
	if err != nil {
		err = fn(path, d, err)
		if err != nil {
			if err == filepath.SkipDir && d.IsDir() {
				err = nil
			}
			return err
		}
	}
	for _, e := range ents {
		if err := walkDir(filepath.Join(path, e.Name()), e, fn); err != nil {
			if err == filepath.SkipDir {
				break
			}
			return err
		}
	}
	return nil
}
