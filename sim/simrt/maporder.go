package simrt

import (
	"fmt"
	"iter"
	"reflect"
	"sort"
	"strconv"
)

// MapSeq replaces `range m` over a Go map in instrumented code. Keys are
// snapshotted, put in sorted (base) order, permuted as the spec says, and each
// entry is produced only if it is still present (Go's rule for entries removed
// during iteration; entries added during iteration are not produced, which Go
// permits).
func MapSeq[M ~map[K]V, K comparable, V any](m M, site string) iter.Seq2[K, V] {
	return func(yield func(K, V) bool) {
		n := len(m)
		if n == 0 {
			noteSmall()
			return
		}
		keys := make([]K, 0, n)
		for k := range m {
			keys = append(keys, k)
		}
		if n >= 2 {
			orderKeys(keys, site)
		} else {
			noteSmall()
		}
		for _, k := range keys {
			v, ok := m[k]
			if !ok {
				continue
			}
			if !yield(k, v) {
				return
			}
		}
	}
}

// PermuteValues replaces reflect.Value.MapKeys() results.
func PermuteValues(keys []reflect.Value, site string) []reflect.Value {
	if len(keys) < 2 {
		noteSmall()
		return keys
	}
	sk := make([]sortKey, len(keys))
	raw := false
	for i, k := range keys {
		s, ok := keyOf(k)
		if !ok {
			raw = true
		}
		sk[i] = s
	}
	idx := schedule(len(keys), site, raw, func(i, j int) bool { return sk[i].less(sk[j]) })
	out := make([]reflect.Value, len(keys))
	for i, j := range idx {
		out[i] = keys[j]
	}
	return out
}

// MapIter replaces *reflect.MapIter obtained from reflect.Value.MapRange().
type MapIter struct {
	m    reflect.Value
	keys []reflect.Value
	i    int
}

func MapRange(v reflect.Value, site string) *MapIter {
	return &MapIter{m: v, keys: PermuteValues(v.MapKeys(), site), i: -1}
}

func (it *MapIter) Next() bool {
	for {
		it.i++
		if it.i >= len(it.keys) {
			return false
		}
		if it.m.MapIndex(it.keys[it.i]).IsValid() {
			return true
		}
	}
}
func (it *MapIter) Key() reflect.Value   { return it.keys[it.i] }
func (it *MapIter) Value() reflect.Value { return it.m.MapIndex(it.keys[it.i]) }

func noteSmall() { w.res.MapSmall++; w.tick() }

func orderKeys[K comparable](keys []K, site string) {
	sk := make([]sortKey, len(keys))
	raw := false
	for i, k := range keys {
		s, ok := keyOf(reflect.ValueOf(&k).Elem())
		if !ok {
			raw = true
		}
		sk[i] = s
	}
	idx := schedule(len(keys), site, raw, func(i, j int) bool { return sk[i].less(sk[j]) })
	out := make([]K, len(keys))
	for i, j := range idx {
		out[i] = keys[j]
	}
	copy(keys, out)
}

// schedule returns the index order for one map-order event over n>=2 keys.
func schedule(n int, site string, raw bool, less func(i, j int) bool) []int {
	idx := make([]int, n)
	for i := range idx {
		idx[i] = i
	}
	ev := MapEv{Idx: w.mapIdx, Site: site, N: n, Raw: raw}
	w.mapIdx++
	w.res.MapEvents++
	w.tick()
	if !raw {
		sort.SliceStable(idx, func(a, b int) bool { return less(idx[a], idx[b]) })
		base := append([]int(nil), idx...)
		if ch, ok := w.spec.MapOrders[strconv.Itoa(ev.Idx)]; ok {
			for i := 0; i < n-1; i++ {
				c := 0
				if i < len(ch) {
					c = ch[i]
				}
				if c < 0 {
					c = -c
				}
				j := i + c%(n-i)
				idx[i], idx[j] = idx[j], idx[i]
			}
		} else {
			switch w.spec.MapDefault {
			case "reverse":
				for i, j := 0, n-1; i < j; i, j = i+1, j-1 {
					idx[i], idx[j] = idx[j], idx[i]
				}
			case "rot":
				idx = append(idx[1:], idx[0])
			}
		}
		for i := range idx {
			if idx[i] != base[i] {
				ev.Perm = true
				break
			}
		}
	}
	if !w.spec.NoTrace {
		w.res.Maps = append(w.res.Maps, ev)
	}
	return idx
}

// sortKey is a totally ordered image of a map key.
type sortKey struct {
	class int // 0 nil, 1 bool, 2 int, 3 uint, 4 float, 5 string, 6 composite
	i     int64
	u     uint64
	f     float64
	s     string
}

func (a sortKey) less(b sortKey) bool {
	if a.class != b.class {
		return a.class < b.class
	}
	switch a.class {
	case 1, 2:
		return a.i < b.i
	case 3:
		return a.u < b.u
	case 4:
		return a.f < b.f
	default:
		return a.s < b.s
	}
}

// keyOf maps a key to its sort key; ok=false if the key contains something whose
// order is not a function of the program's input (pointer, channel, func ...).
func keyOf(v reflect.Value) (sortKey, bool) {
	switch v.Kind() {
	case reflect.Bool:
		if v.Bool() {
			return sortKey{class: 1, i: 1}, true
		}
		return sortKey{class: 1}, true
	case reflect.Int, reflect.Int8, reflect.Int16, reflect.Int32, reflect.Int64:
		return sortKey{class: 2, i: v.Int()}, true
	case reflect.Uint, reflect.Uint8, reflect.Uint16, reflect.Uint32, reflect.Uint64, reflect.Uintptr:
		return sortKey{class: 3, u: v.Uint()}, true
	case reflect.Float32, reflect.Float64:
		return sortKey{class: 4, f: v.Float()}, true
	case reflect.String:
		return sortKey{class: 5, s: v.String()}, true
	case reflect.Interface:
		if v.IsNil() {
			return sortKey{class: 0}, true
		}
		return keyOf(v.Elem())
	case reflect.Struct, reflect.Array:
		s := ""
		ok := true
		n := 0
		if v.Kind() == reflect.Struct {
			n = v.NumField()
		} else {
			n = v.Len()
		}
		for i := 0; i < n; i++ {
			var e reflect.Value
			if v.Kind() == reflect.Struct {
				e = v.Field(i)
			} else {
				e = v.Index(i)
			}
			k, o := keyOf(e)
			if !o {
				ok = false
			}
			s += fmt.Sprintf("%d:%d:%d:%g:%q;", k.class, k.i, k.u, k.f, k.s)
		}
		return sortKey{class: 6, s: s}, ok
	}
	return sortKey{class: 7}, false
}
