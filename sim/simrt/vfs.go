package simrt

import (
	"io/fs"
	"os"
	"path/filepath"
	"runtime/debug"
	"sort"
	"strings"
	"syscall"
	"time"
)

// ---- state -----------------------------------------------------------------

type node struct {
	kind     byte // 'f' 'd' 'l'
	data     []byte
	target   string
	children map[string]*node
}

type world struct {
	spec   Spec
	root   *node
	cwd    string
	res    Result
	steps  int
	ticks  int
	mapIdx int
	chunkI int
	tempN  int
	inos   map[*node]uint64
	clockN int64
	faults map[int][]int // step -> indices into spec.Faults
	fired  []bool
	active bool // a spec was loaded (otherwise pass-through to the real OS is NOT provided: everything is simulated)
}

var w = &world{root: &node{kind: 'd', children: map[string]*node{}}, cwd: "/"}

func (w *world) load(s Spec) {
	w.spec = s
	w.root = &node{kind: 'd', children: map[string]*node{}}
	w.cwd = "/"
	if s.Cwd != "" {
		w.cwd = filepath.Clean(s.Cwd)
	}
	nodes := append([]Node(nil), s.FS...)
	sort.SliceStable(nodes, func(i, j int) bool { return len(nodes[i].Path) < len(nodes[j].Path) })
	for _, n := range nodes {
		if n.Kind != "h" {
			w.install(n)
		}
	}
	for _, n := range nodes {
		if n.Kind == "h" { // hard links last: their targets exist by now
			w.install(n)
		}
	}
	w.mkdirAllRaw(w.cwd)
	w.faults = map[int][]int{}
	for i, f := range s.Faults {
		w.faults[f.Step] = append(w.faults[f.Step], i)
	}
	w.fired = make([]bool, len(s.Faults))
	w.res.Probes = map[string]int{}
	w.active = true
}

func (w *world) install(n Node) {
	p := filepath.Clean(n.Path)
	dir, base := filepath.Split(p)
	d := w.mkdirAllRaw(filepath.Clean(dir))
	if d == nil || base == "" {
		return
	}
	switch n.Kind {
	case "d":
		if _, ok := d.children[base]; !ok {
			d.children[base] = &node{kind: 'd', children: map[string]*node{}}
		}
	case "l":
		d.children[base] = &node{kind: 'l', target: n.Target}
	case "h":
		// a second NAME for the file Target (absolute path): one node under two directory entries - same bytes, same
		// identity (os.SameFile, inode number), writes through one name are seen through the other
		if t, _, _, errno := w.lookup(n.Target, true); errno == 0 && t.kind == 'f' {
			d.children[base] = t
		}
	default:
		d.children[base] = &node{kind: 'f', data: append([]byte(nil), n.Data...)}
	}
}

// mkdirAllRaw creates directories without symlink resolution (used for setup).
func (w *world) mkdirAllRaw(p string) *node {
	cur := w.root
	for _, c := range strings.Split(p, "/") {
		if c == "" {
			continue
		}
		nx, ok := cur.children[c]
		if !ok {
			nx = &node{kind: 'd', children: map[string]*node{}}
			cur.children[c] = nx
		}
		if nx.kind != 'd' {
			return nil
		}
		cur = nx
	}
	return cur
}

func (w *world) snapshot() []Node {
	var out []Node
	var walk func(p string, n *node)
	walk = func(p string, n *node) {
		switch n.kind {
		case 'd':
			if p != "/" {
				out = append(out, Node{Path: p, Kind: "d"})
			}
			names := make([]string, 0, len(n.children))
			for k := range n.children {
				names = append(names, k)
			}
			sort.Strings(names)
			for _, k := range names {
				walk(filepath.Join(p, k), n.children[k])
			}
		case 'l':
			out = append(out, Node{Path: p, Kind: "l", Target: n.target})
		default:
			out = append(out, Node{Path: p, Kind: "f", Data: append([]byte(nil), n.data...)})
		}
	}
	walk("/", w.root)
	return out
}

// ---- steps and faults --------------------------------------------------------

// step opens a new I/O step and returns its index plus the fault configured for
// it (nil if none). The caller reports the outcome through done.
func (w *world) step() (int, *Fault, int) {
	seq := w.steps
	w.steps++
	w.tick()
	if idx, ok := w.faults[seq]; ok && len(idx) > 0 {
		return seq, &w.spec.Faults[idx[0]], idx[0]
	}
	return seq, nil, -1
}

func (w *world) tick() {
	w.ticks++
	max := w.spec.MaxTicks
	if max <= 0 {
		max = 1000000
	}
	if w.ticks > max {
		w.res.Overrun = true
		w.res.OverrunKind = "ticks"
		w.res.Stack = string(debug.Stack())
		finish(97, false)
	}
	if w.ticks&15 == 0 && rssBytes() > 384<<20 {
		w.res.Overrun = true
		w.res.OverrunKind = "memory"
		w.res.Stack = string(debug.Stack())
		finish(97, false)
	}
}

var statmBuf [128]byte

// rssBytes reads the resident set size from /proc/self/statm (one cheap
// syscall; runtime.ReadMemStats would stop the world).
func rssBytes() int64 {
	fd, err := syscall.Open("/proc/self/statm", syscall.O_RDONLY, 0)
	if err != nil {
		return 0
	}
	n, _ := syscall.Read(fd, statmBuf[:])
	_ = syscall.Close(fd)
	field, val := 0, int64(0)
	for i := 0; i < n; i++ {
		c := statmBuf[i]
		if c == ' ' {
			if field == 1 {
				return val * 4096
			}
			field++
			val = 0
			continue
		}
		if c >= '0' && c <= '9' {
			val = val*10 + int64(c-'0')
		}
	}
	return 0
}

func (w *world) done(seq int, op, path string, n int, err error, flt *Fault, fi int, fitted bool) {
	if flt != nil {
		w.fired[fi] = true
		w.res.Fired = append(w.res.Fired, Fired{Fault: *flt, Op: op, Path: path, Misfit: !fitted})
	}
	if w.spec.NoTrace {
		return
	}
	ev := Ev{Seq: seq, Op: op, Path: path, N: n, Err: errName(err)}
	if flt != nil && fitted {
		ev.Flt = flt.Kind
	}
	w.res.Trace = append(w.res.Trace, ev)
}

var errnoByName = map[string]syscall.Errno{
	"ENOENT": syscall.ENOENT, "EACCES": syscall.EACCES, "EIO": syscall.EIO, "EISDIR": syscall.EISDIR,
	"ENOTDIR": syscall.ENOTDIR, "ELOOP": syscall.ELOOP, "EMFILE": syscall.EMFILE, "ENOSPC": syscall.ENOSPC,
	"EROFS": syscall.EROFS, "EPIPE": syscall.EPIPE, "EDQUOT": syscall.EDQUOT, "EEXIST": syscall.EEXIST,
	"EINVAL": syscall.EINVAL, "ENOTEMPTY": syscall.ENOTEMPTY, "EBADF": syscall.EBADF, "ENAMETOOLONG": syscall.ENAMETOOLONG,
}

func errName(err error) string {
	if err == nil {
		return ""
	}
	if err.Error() == "EOF" {
		return "EOF"
	}
	var e error = err
	for {
		switch x := e.(type) {
		case *fs.PathError:
			e = x.Err
			continue
		case *os.LinkError:
			e = x.Err
			continue
		case *os.SyscallError:
			e = x.Err
			continue
		case syscall.Errno:
			for k, v := range errnoByName {
				if v == x {
					return k
				}
			}
			return x.Error()
		}
		break
	}
	return "ERR:" + err.Error()
}

// faultErrno returns the errno of an "errno:<NAME>" fault, or 0.
func faultErrno(f *Fault) syscall.Errno {
	if f == nil || !strings.HasPrefix(f.Kind, "errno:") {
		return 0
	}
	return errnoByName[strings.TrimPrefix(f.Kind, "errno:")]
}

// ---- path resolution ----------------------------------------------------------

func (w *world) abs(p string) string {
	if !filepath.IsAbs(p) {
		p = filepath.Join(w.cwd, p)
	}
	return filepath.Clean(p)
}

const maxLinks = 40

// lookup resolves path p the way the kernel would (symlinks are followed before
// ".." is applied). If followLast is false a symlink in the final component is
// returned itself. On ENOENT of the final component, parent and name are still
// returned so that a create can proceed.
func (w *world) lookup(p string, followLast bool) (*node, *node, string, syscall.Errno) {
	if p == "" {
		return nil, nil, "", syscall.ENOENT
	}
	trailingSlash := len(p) > 1 && strings.HasSuffix(p, "/")
	var queue []string
	if !filepath.IsAbs(p) {
		queue = append(splitPath(w.cwd), splitPath(p)...)
	} else {
		queue = splitPath(p)
	}
	stack := []*node{w.root}
	names := []string{""}
	links := 0
	for len(queue) > 0 {
		c := queue[0]
		queue = queue[1:]
		cur := stack[len(stack)-1]
		if cur.kind != 'd' {
			return nil, nil, "", syscall.ENOTDIR
		}
		if c == "." {
			continue
		}
		if c == ".." {
			if len(stack) > 1 {
				stack = stack[:len(stack)-1]
				names = names[:len(names)-1]
			}
			continue
		}
		nx, ok := cur.children[c]
		if !ok {
			if len(queue) == 0 {
				return nil, cur, c, syscall.ENOENT
			}
			return nil, nil, "", syscall.ENOENT
		}
		if nx.kind == 'l' && (len(queue) > 0 || followLast || trailingSlash) {
			links++
			if links > maxLinks {
				return nil, nil, "", syscall.ELOOP
			}
			if filepath.IsAbs(nx.target) {
				stack = stack[:1]
				names = names[:1]
			}
			queue = append(splitPath(nx.target), queue...)
			continue
		}
		stack = append(stack, nx)
		names = append(names, c)
	}
	cur := stack[len(stack)-1]
	if trailingSlash && cur.kind != 'd' {
		return nil, nil, "", syscall.ENOTDIR
	}
	if len(stack) == 1 {
		return cur, nil, "", 0
	}
	return cur, stack[len(stack)-2], names[len(names)-1], 0
}

func splitPath(p string) []string {
	var out []string
	for _, c := range strings.Split(p, "/") {
		if c != "" {
			out = append(out, c)
		}
	}
	return out
}

// ---- file info -------------------------------------------------------------------

type fileInfo struct {
	name string
	n    *node
	mt   time.Time
}

func (fi fileInfo) Name() string { return fi.name }
func (fi fileInfo) Size() int64 {
	switch fi.n.kind {
	case 'f':
		return int64(len(fi.n.data))
	case 'l':
		return int64(len(fi.n.target))
	}
	return 4096
}
func (fi fileInfo) Mode() fs.FileMode {
	switch fi.n.kind {
	case 'd':
		return fs.ModeDir | 0o755
	case 'l':
		return fs.ModeSymlink | 0o777
	}
	return 0o644
}
func (fi fileInfo) ModTime() time.Time { return fi.mt }
func (fi fileInfo) IsDir() bool        { return fi.n.kind == 'd' }

// Sys: like the real thing on Linux, a *syscall.Stat_t - with an inode number that is the node's identity (two names
// of one hard-linked file share it) and the number of names.
func (fi fileInfo) Sys() any {
	if w.inos == nil {
		w.inos = map[*node]uint64{}
	}
	ino, ok := w.inos[fi.n]
	if !ok {
		ino = uint64(1000 + len(w.inos))
		w.inos[fi.n] = ino
	}
	nlink := 0
	var walk func(n *node)
	walk = func(n *node) {
		for _, c := range n.children {
			if c == fi.n {
				nlink++
			}
			if c.kind == 'd' {
				walk(c)
			}
		}
	}
	walk(w.root)
	return &syscall.Stat_t{Dev: 2049, Ino: ino, Nlink: uint64(max(nlink, 1)), Size: fi.Size(), Blksize: 4096}
}

func (w *world) info(name string, n *node) fileInfo {
	return fileInfo{name: filepath.Base(name), n: n, mt: time.Unix(w.spec.Clock, 0).UTC()}
}

func pathErr(op, path string, e syscall.Errno) error {
	return &fs.PathError{Op: op, Path: path, Err: e}
}
