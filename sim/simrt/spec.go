// Package simrt is the runtime half of the deterministic simulator. It is linked
// into an instrumented scratch copy of the program under test, where every
// map iteration, file-system / process / clock / HTTP access has been rewritten
// to go through this package. The simulated process contains no PRNG: every
// choice (map order, read chunking, faults, clock) is an explicit value in Spec.
//
// The package depends on the standard library only; the orchestrator imports it
// for the Spec/Result types.
package simrt

// Spec fully determines one simulated execution (together with the code).
type Spec struct {
	Args  []string `json:"args"`            // argv[1:]
	Cwd   string   `json:"cwd"`             // simulated working directory (absolute)
	FS    []Node   `json:"fs"`              // initial file system
	// HeldOpen: standard input and HTTP bodies never report end of file - the peer has sent everything but
	// keeps the stream open; a read at the end of the data blocks for ever (the run ends as "blocked-read").
	HeldOpen bool `json:"held_open,omitempty"`
	Stdin []byte   `json:"stdin,omitempty"` // simulated standard input
	Web   []WebEnt `json:"web,omitempty"`   // virtual web served to http.DefaultTransport

	// Map schedule. Base order of every instrumented map iteration is the sorted
	// key order. MapDefault applies to every iteration over >=2 keys that has no
	// explicit entry in MapOrders: "" identity, "reverse", "rot" (rotate by one,
	// which is what the Go runtime really does to small maps).
	// MapOrders maps the decimal index of a map-order event (events are numbered
	// 0,1,2,.. counting only iterations over >=2 keys) to Fisher-Yates choices:
	// for i in 0..n-2: swap(i, i + choice[i] mod (n-i)); missing choices are 0.
	MapDefault string           `json:"map_default,omitempty"`
	MapOrders  map[string][]int `json:"map_orders,omitempty"`

	// Chunks are the sizes of successive reads on simulated input streams (files,
	// stdin, HTTP bodies), used cyclically; empty or <=0 means "as much as asked".
	Chunks []int `json:"chunks,omitempty"`

	Faults []Fault `json:"faults,omitempty"`

	Clock int64             `json:"clock,omitempty"` // unix seconds returned by the first clock read
	Env   map[string]string `json:"env,omitempty"`
	Pid   int               `json:"pid,omitempty"`
	Host  string            `json:"host,omitempty"`

	// MaxTicks bounds I/O steps + map-order events (bounded liveness). 0 = 1e6.
	MaxTicks int `json:"max_ticks,omitempty"`
	// NoTrace suppresses the per-event trace in the result (counts are kept).
	NoTrace bool `json:"no_trace,omitempty"`
}

// Node is one entry of the simulated file system.
type Node struct {
	Path   string `json:"path"`             // absolute, clean
	Kind   string `json:"kind"`             // "f" file, "d" dir, "l" symlink, "h" hard link (a second name for the file Target)
	Data   []byte `json:"data,omitempty"`   // file content
	Target string `json:"target,omitempty"` // symlink target
}

// WebEnt is one resource of the virtual web.
type WebEnt struct {
	URL         string `json:"url"`
	Status      int    `json:"status,omitempty"` // default 200
	ContentType string `json:"content_type,omitempty"`
	Body        []byte `json:"body,omitempty"`
	Location    string `json:"location,omitempty"` // with a 3xx Status: where the server sends the client
}

// Fault is injected when the global I/O step counter equals Step.
//
// Kinds (applicability is checked when the step is reached; a fault that does not
// fit the operation it lands on is recorded as a misfit and ignored):
//
//	"errno:<NAME>"  the operation fails with that errno (ENOENT EACCES EIO EISDIR
//	                ENOTDIR ELOOP EMFILE ENOSPC EROFS EPIPE EDQUOT); on a write,
//	                Arg bytes are written first (short write)
//	"eof"           a read reports end of file here (torn / truncated input)
//	"short"         a write writes Arg bytes and reports success with n<len
//	"lost"          a write reports success but the bytes never reach the file and
//	                the later Close reports EIO (deferred write error)
//	"neterr"        an HTTP round trip / body read fails with a transport error
//	"status:<N>"    an HTTP round trip is answered with status N and a small JSON error body instead of the document
//	"stall"         a read on stdin / an HTTP body that would report end of file blocks for ever instead (the
//	                peer has sent everything but keeps the stream open): the run ends as non-termination
type Fault struct {
	Step int    `json:"step"`
	Kind string `json:"kind"`
	Arg  int    `json:"arg,omitempty"`
}

// Ev is one I/O step in the trace.
type Ev struct {
	Seq  int    `json:"seq"`
	Op   string `json:"op"` // open openw read write close stat lstat readlink mkdirall mkdir remove rename readdir getwd chdir http httpread exit
	Path string `json:"path,omitempty"`
	N    int    `json:"n,omitempty"`   // bytes moved
	Err  string `json:"err,omitempty"` // errno name or "EOF"
	Flt  string `json:"flt,omitempty"` // fault kind that fired on this step
}

// MapEv is one map-order event (iteration over >=2 keys).
type MapEv struct {
	Idx  int    `json:"idx"`
	Site string `json:"site"`
	N    int    `json:"n"`
	Perm bool   `json:"perm,omitempty"` // order differs from the sorted base order
	Raw  bool   `json:"raw,omitempty"`  // keys not orderable: runtime order used (not replay exact)
}

// Fired records a fault that was configured and what happened to it.
type Fired struct {
	Fault  Fault  `json:"fault"`
	Op     string `json:"op,omitempty"`
	Path   string `json:"path,omitempty"`
	Misfit bool   `json:"misfit,omitempty"`
}

// Result is written to fd 3 when the simulated process ends.
type Result struct {
	Exit        int            `json:"exit"`
	Returned    bool           `json:"returned,omitempty"` // main returned (no explicit Exit)
	Panic       string         `json:"panic,omitempty"`
	Stack       string         `json:"stack,omitempty"`
	Overrun     bool           `json:"overrun,omitempty"`      // tick or heap budget exhausted (bounded liveness)
	OverrunKind string         `json:"overrun_kind,omitempty"` // "ticks", "memory" or "blocked-read"
	Steps       int            `json:"steps"`
	Ticks       int            `json:"ticks"`            // I/O steps + map iterations (the unit of the liveness budget)
	MapEvents   int            `json:"map_events"`       // events over >=2 keys
	MapSmall    int            `json:"map_small"`        // iterations over 0/1 keys
	Trace       []Ev           `json:"trace,omitempty"`  // I/O steps
	Maps        []MapEv        `json:"maps,omitempty"`   // map-order events
	Fired       []Fired        `json:"fired,omitempty"`  // configured faults and their fate
	FS          []Node         `json:"fs"`               // file system after the run
	Probes      map[string]int `json:"probes,omitempty"` // clock/env/pid reads, unmodelled calls
	OutBytes    int            `json:"out_bytes"`        // bytes the program wrote to stdout via the shim
	ErrBytes    int            `json:"err_bytes"`
}
