// Command instrument builds the simulated program: it copies the working tree of
// the repository under test to a scratch directory, copies every third-party
// module the binary links next to it, builds the untouched binary (realbin, for
// the fidelity cross-check), then rewrites the copy so that every map iteration
// and every OS / clock / process access goes through verifsim/simrt, and builds
// simbin. Nothing in the repository itself is modified.
package main

import (
	"bytes"
	"encoding/json"
	"flag"
	"fmt"
	"go/ast"
	"go/format"
	"go/token"
	"go/types"
	"io/fs"
	"os"
	"os/exec"
	"path/filepath"
	"sort"
	"strconv"
	"strings"

	"golang.org/x/tools/go/ast/astutil"
	"golang.org/x/tools/go/packages"
)

const simrtPath = "verifsim/simrt"
const simrtName = "vsimrt"

// Report is written next to the binaries; checks copy it into their evidence.
type Report struct {
	MapRangeSites   []string       `json:"map_range_sites"`
	MapKeysSites    []string       `json:"map_keys_sites"`
	OSRewrites      map[string]int `json:"os_rewrites"`
	Unmodelled      map[string]int `json:"unmodelled_calls"`        // side-effecting selectors left real (main module)
	DepOSUses       map[string]int `json:"dep_os_uses"`             // os/time selectors in vendored deps (left real)
	GoStatements    []string       `json:"go_statements"`           // in the main module
	SyncImports     []string       `json:"sync_imports"`            // in the main module
	RandImports     []string       `json:"rand_imports"`            // in the main module
	GenericMapRange []string       `json:"generic_map_range_sites"` // range over type-parameter typed maps (rewritten as well)
	Modules         []string       `json:"instrumented_modules"`
	Packages        int            `json:"packages"`
	FilesRewritten  int            `json:"files_rewritten"`
	MainModule      string         `json:"main_module"`
}

var osTable = map[string]map[string]string{
	"os": {
		"Open": "Open", "OpenFile": "OpenFile", "Create": "Create", "ReadFile": "ReadFile", "WriteFile": "WriteFile",
		"Stat": "Stat", "Lstat": "Lstat", "Readlink": "Readlink", "Mkdir": "Mkdir", "MkdirAll": "MkdirAll",
		"Remove": "Remove", "RemoveAll": "RemoveAll", "Rename": "Rename", "ReadDir": "ReadDir", "Getwd": "Getwd",
		"Chdir": "Chdir", "Getenv": "Getenv", "LookupEnv": "LookupEnv", "Environ": "Environ", "ExpandEnv": "ExpandEnv",
		"Hostname": "Hostname", "Getpid": "Getpid", "Getppid": "Getppid", "Getuid": "Getuid", "Geteuid": "Geteuid",
		"Getgid": "Getgid", "UserHomeDir": "UserHomeDir", "TempDir": "TempDir", "Executable": "Executable",
		"Exit": "Exit", "Stdin": "Stdin", "Stdout": "Stdout", "Stderr": "Stderr", "File": "File",
		"Symlink": "Symlink", "Link": "Link", "Chmod": "Chmod", "Chown": "Chown", "Lchown": "Lchown", "Chtimes": "Chtimes",
		"Truncate": "Truncate", "CreateTemp": "CreateTemp", "MkdirTemp": "MkdirTemp", "SameFile": "SameFile",
		"Setenv": "Setenv", "Unsetenv": "Unsetenv", "Clearenv": "Clearenv", "UserCacheDir": "UserCacheDir", "UserConfigDir": "UserConfigDir",
	},
	"path/filepath": {
		"EvalSymlinks": "FilepathEvalSymlinks", "Abs": "FilepathAbs", "Glob": "FilepathGlob", "Walk": "FilepathWalk", "WalkDir": "FilepathWalkDir",
	},
	"time": {
		"Now": "TimeNow", "Since": "TimeSince", "Until": "TimeUntil", "Sleep": "TimeSleep", "After": "TimeAfter",
	},
	"io/ioutil": {
		"ReadFile": "ReadFile", "WriteFile": "WriteFile", "ReadDir": "IoutilReadDir", "TempDir": "IoutilTempDir", "TempFile": "IoutilTempFile",
	},
}

// selectors that have effects or read ambient state but are not modelled
var unmodelled = map[string]map[string]bool{
	"os": {
		"Pipe": true, "StartProcess": true, "DirFS": true, "NewFile": true, "FindProcess": true, "Getgroups": true, "CopyFS": true,
	},
	"path/filepath": {},
	"time":          {"NewTimer": true, "NewTicker": true, "Tick": true, "AfterFunc": true},
	"io/ioutil":     {},
	"os/exec":       {"Command": true, "CommandContext": true, "LookPath": true},
	"net":           {"Dial": true, "Listen": true, "DialTimeout": true, "LookupHost": true},
}

func main() {
	repo := flag.String("repo", "/repo", "repository under test (working tree is used)")
	out := flag.String("out", "", "scratch directory to create (must not exist or be empty)")
	simrt := flag.String("simrt", "", "path of the verifsim/simrt module")
	bin := flag.String("bin", "", "directory to write simbin, realbin, instrument.json to")
	keep := flag.Bool("keep", false, "keep the scratch source copy")
	flag.Parse()
	if *out == "" || *simrt == "" || *bin == "" {
		fatal("usage: instrument -repo DIR -out SCRATCH -simrt DIR -bin DIR")
	}
	must(os.MkdirAll(*out, 0o755))
	must(os.MkdirAll(*bin, 0o755))
	src := filepath.Join(*out, "src")
	tp := filepath.Join(*out, "third_party")
	must(copyTree(*repo, src, func(rel string, d fs.DirEntry) bool {
		if rel == ".git" || rel == "tests" || rel == "docs" || strings.HasPrefix(rel, "go.work") {
			return false
		}
		if !d.IsDir() && strings.HasSuffix(rel, "_test.go") {
			return false
		}
		return true
	}))

	rep := &Report{OSRewrites: map[string]int{}, Unmodelled: map[string]int{}, DepOSUses: map[string]int{}}

	// --- which modules does the binary link? copy the linked packages next to the source
	type mod struct{ Path, Version, Dir string }
	lst := goCmd(src, "list", "-deps", "-f", "{{if .Module}}{{.Module.Path}}\t{{.Module.Version}}\t{{.Module.Dir}}\t{{.Module.Main}}\t{{.Dir}}{{end}}", ".")
	mods := map[string]mod{}
	pkgDirs := map[string][]string{}
	for _, l := range strings.Split(strings.TrimSpace(lst), "\n") {
		f := strings.Split(l, "\t")
		if len(f) != 5 {
			continue
		}
		if f[3] == "true" {
			rep.MainModule = f[0]
			continue
		}
		mods[f[0]] = mod{f[0], f[1], f[2]}
		pkgDirs[f[0]] = append(pkgDirs[f[0]], f[4])
	}
	var modPaths []string
	for p := range mods {
		modPaths = append(modPaths, p)
	}
	sort.Strings(modPaths)
	gomod, err := os.ReadFile(filepath.Join(src, "go.mod"))
	must(err)
	var extra bytes.Buffer
	extra.WriteString("\nrequire " + simrtPath + " v0.0.0\n")
	abssimrt, _ := filepath.Abs(*simrt)
	extra.WriteString("replace " + simrtPath + " => " + abssimrt + "\n")
	for _, p := range modPaths {
		m := mods[p]
		dst := filepath.Join(tp, filepath.FromSlash(p))
		must(os.MkdirAll(dst, 0o755))
		if b, err := os.ReadFile(filepath.Join(m.Dir, "go.mod")); err == nil {
			must(os.WriteFile(filepath.Join(dst, "go.mod"), b, 0o644))
		}
		for _, pd := range pkgDirs[p] {
			rel, _ := filepath.Rel(m.Dir, pd)
			must(copyDirFiles(pd, filepath.Join(dst, rel)))
		}
		bumpGoDirective(filepath.Join(dst, "go.mod"), p)
		extra.WriteString("replace " + p + " => " + dst + "\n")
		rep.Modules = append(rep.Modules, p+"@"+m.Version)
	}
	must(os.WriteFile(filepath.Join(src, "go.mod"), append(gomod, extra.Bytes()...), 0o644))

	// --- the untouched binary, from the very same sources
	goCmd(src, "build", "-trimpath", "-o", filepath.Join(*bin, "realbin"), ".")

	// --- load with types and rewrite
	pkgList := strings.Fields(goCmd(src, "list", "-deps", "-f", "{{if not .Standard}}{{.ImportPath}}{{end}}", "."))
	var patterns []string
	for _, p := range pkgList {
		if p != simrtPath {
			patterns = append(patterns, p)
		}
	}
	cfg := &packages.Config{
		Mode: packages.NeedName | packages.NeedFiles | packages.NeedCompiledGoFiles | packages.NeedSyntax |
			packages.NeedTypes | packages.NeedTypesInfo | packages.NeedImports | packages.NeedModule,
		Dir: src,
		Env: goEnv(),
	}
	pkgs, err := packages.Load(cfg, patterns...)
	must(err)
	nerr := 0
	for _, p := range pkgs {
		for _, e := range p.Errors {
			fmt.Fprintln(os.Stderr, "instrument: load error:", e)
			nerr++
		}
	}
	if nerr > 0 {
		fatal("package load errors")
	}
	rep.Packages = len(pkgs)
	mainRenamed := false
	for _, p := range pkgs {
		isMain := p.Module != nil && p.Module.Main
		for i, f := range p.Syntax {
			fn := p.CompiledGoFiles[i]
			if !strings.HasPrefix(fn, *out) {
				fatal("file outside scratch copy would be rewritten: " + fn)
			}
			rel, _ := filepath.Rel(*out, fn)
			rel = strings.TrimPrefix(rel, "src/")
			rel = strings.TrimPrefix(rel, "third_party/")
			rw := &rewriter{fset: p.Fset, info: p.TypesInfo, file: f, rel: rel, rep: rep, isMain: isMain}
			rw.run()
			if isMain && p.Name == "main" && p.PkgPath == rep.MainModule {
				for _, d := range f.Decls {
					if fd, ok := d.(*ast.FuncDecl); ok && fd.Recv == nil && fd.Name.Name == "main" {
						fd.Name.Name = "simMain"
						mainRenamed = true
						rw.changed = true
					}
				}
			}
			if rw.changed {
				if rw.needImport {
					astutil.AddNamedImport(p.Fset, f, simrtName, simrtPath)
				}
				rw.dropUnusedImports()
				var buf bytes.Buffer
				must(format.Node(&buf, p.Fset, f))
				must(os.WriteFile(fn, buf.Bytes(), 0o644))
				rep.FilesRewritten++
			}
		}
	}
	if !mainRenamed {
		fatal("func main not found in main module")
	}
	must(os.WriteFile(filepath.Join(src, "zz_simrt_main.go"), []byte(
		"package main\n\nimport "+simrtName+" \""+simrtPath+"\"\n\nfunc main() { "+simrtName+".Run(simMain) }\n"), 0o644))
	goCmd(src, "build", "-trimpath", "-o", filepath.Join(*bin, "simbin"), ".")

	sort.Strings(rep.MapRangeSites)
	sort.Strings(rep.MapKeysSites)
	b, _ := json.MarshalIndent(rep, "", " ")
	must(os.WriteFile(filepath.Join(*bin, "instrument.json"), b, 0o644))
	if !*keep {
		_ = os.RemoveAll(*out)
	}
}

type rewriter struct {
	fset       *token.FileSet
	info       *types.Info
	file       *ast.File
	rel        string
	rep        *Report
	isMain     bool
	changed    bool
	needImport bool
}

func (r *rewriter) site(pos token.Pos) string {
	return r.rel + ":" + strconv.Itoa(r.fset.Position(pos).Line)
}

func (r *rewriter) sim(name string) ast.Expr {
	r.changed, r.needImport = true, true
	return &ast.SelectorExpr{X: ast.NewIdent(simrtName), Sel: ast.NewIdent(name)}
}

func isReflectValue(t types.Type) bool {
	n, ok := t.(*types.Named)
	if !ok {
		return false
	}
	o := n.Obj()
	return o != nil && o.Pkg() != nil && o.Pkg().Path() == "reflect" && o.Name() == "Value"
}

func (r *rewriter) pkgOf(sel *ast.SelectorExpr) string {
	id, ok := sel.X.(*ast.Ident)
	if !ok {
		return ""
	}
	pn, ok := r.info.Uses[id].(*types.PkgName)
	if !ok {
		return ""
	}
	return pn.Imported().Path()
}

func (r *rewriter) run() {
	if r.isMain {
		for _, imp := range r.file.Imports {
			p, _ := strconv.Unquote(imp.Path.Value)
			switch p {
			case "sync", "sync/atomic":
				r.rep.SyncImports = append(r.rep.SyncImports, r.rel+":"+p)
			case "math/rand", "math/rand/v2", "crypto/rand":
				r.rep.RandImports = append(r.rep.RandImports, r.rel+":"+p)
			}
		}
	}
	astutil.Apply(r.file, func(c *astutil.Cursor) bool {
		switch n := c.Node().(type) {
		case *ast.GoStmt:
			if r.isMain {
				r.rep.GoStatements = append(r.rep.GoStatements, r.site(n.Pos()))
			}
		case *ast.RangeStmt:
			t := r.info.TypeOf(n.X)
			if t == nil {
				break
			}
			isMap := false
			if _, ok := t.(*types.TypeParam); ok {
				// a type parameter whose core type is a map (x/exp/maps.Keys: M ~map[K]V):
				// MapSeq's own constraint ~map[K]V lets inference go through
				if u, ok := t.Underlying().(*types.Interface); ok && coreIsMap(u) {
					r.rep.GenericMapRange = append(r.rep.GenericMapRange, r.site(n.Pos()))
					isMap = true
				}
			} else if _, ok := t.Underlying().(*types.Map); ok {
				isMap = true
			}
			if isMap {
				s := r.site(n.Pos())
				n.X = &ast.CallExpr{Fun: r.sim("MapSeq"), Args: []ast.Expr{n.X, &ast.BasicLit{Kind: token.STRING, Value: strconv.Quote(s)}}}
				r.rep.MapRangeSites = append(r.rep.MapRangeSites, s)
			}
		}
		return true
	}, func(c *astutil.Cursor) bool {
		switch n := c.Node().(type) {
		case *ast.CallExpr:
			sel, ok := n.Fun.(*ast.SelectorExpr)
			if !ok || len(n.Args) != 0 {
				break
			}
			if sel.Sel.Name != "MapKeys" && sel.Sel.Name != "MapRange" {
				break
			}
			t := r.info.TypeOf(sel.X)
			if t == nil || !isReflectValue(t) {
				break
			}
			s := r.site(n.Pos())
			lit := &ast.BasicLit{Kind: token.STRING, Value: strconv.Quote(s)}
			if sel.Sel.Name == "MapKeys" {
				c.Replace(&ast.CallExpr{Fun: r.sim("PermuteValues"), Args: []ast.Expr{n, lit}})
			} else {
				c.Replace(&ast.CallExpr{Fun: r.sim("MapRange"), Args: []ast.Expr{sel.X, lit}})
			}
			r.rep.MapKeysSites = append(r.rep.MapKeysSites, s)
		case *ast.SelectorExpr:
			p := r.pkgOf(n)
			if p == "" {
				break
			}
			if !r.isMain {
				if p == "os" || p == "time" || p == "os/exec" || p == "net" {
					if _, ok := osTable[p][n.Sel.Name]; ok || unmodelled[p][n.Sel.Name] {
						r.rep.DepOSUses[p+"."+n.Sel.Name]++
					}
				}
				break
			}
			if to, ok := osTable[p][n.Sel.Name]; ok {
				c.Replace(r.sim(to))
				r.rep.OSRewrites[p+"."+n.Sel.Name]++
			} else if unmodelled[p][n.Sel.Name] {
				r.rep.Unmodelled[p+"."+n.Sel.Name]++
			}
		}
		return true
	})
}

func coreIsMap(u *types.Interface) bool {
	for i := 0; i < u.NumEmbeddeds(); i++ {
		switch e := u.EmbeddedType(i).(type) {
		case *types.Union:
			for j := 0; j < e.Len(); j++ {
				if _, ok := e.Term(j).Type().Underlying().(*types.Map); ok {
					return true
				}
			}
		default:
			if _, ok := e.Underlying().(*types.Map); ok {
				return true
			}
		}
	}
	return false
}

// dropUnusedImports removes imports of the rewritten packages that no longer
// have a user in this file.
func (r *rewriter) dropUnusedImports() {
	used := map[string]bool{}
	ast.Inspect(r.file, func(n ast.Node) bool {
		if sel, ok := n.(*ast.SelectorExpr); ok {
			if id, ok := sel.X.(*ast.Ident); ok {
				if pn, ok := r.info.Uses[id].(*types.PkgName); ok {
					used[pn.Imported().Path()] = true
				}
			}
		}
		return true
	})
	for p := range osTable {
		if used[p] {
			continue
		}
		for _, imp := range r.file.Imports {
			ip, _ := strconv.Unquote(imp.Path.Value)
			if ip != p {
				continue
			}
			if imp.Name != nil && (imp.Name.Name == "_" || imp.Name.Name == ".") {
				continue
			}
			name := ""
			if imp.Name != nil {
				name = imp.Name.Name
			}
			astutil.DeleteNamedImport(r.fset, r.file, name, p)
		}
	}
}

func bumpGoDirective(gomod, modPath string) {
	b, err := os.ReadFile(gomod)
	if err != nil {
		must(os.WriteFile(gomod, []byte("module "+modPath+"\n\ngo 1.23\n"), 0o644))
		return
	}
	lines := strings.Split(string(b), "\n")
	seen := false
	var out []string
	for _, l := range lines {
		t := strings.TrimSpace(l)
		if strings.HasPrefix(t, "go ") {
			out = append(out, "go 1.23")
			seen = true
			continue
		}
		if strings.HasPrefix(t, "toolchain ") {
			continue
		}
		out = append(out, l)
	}
	if !seen {
		out = append(out, "go 1.23")
	}
	must(os.WriteFile(gomod, []byte(strings.Join(out, "\n")), 0o644))
}

func copyTree(from, to string, keep func(rel string, d fs.DirEntry) bool) error {
	return filepath.WalkDir(from, func(p string, d fs.DirEntry, err error) error {
		if err != nil {
			return err
		}
		rel, _ := filepath.Rel(from, p)
		if rel != "." && !keep(rel, d) {
			if d.IsDir() {
				return filepath.SkipDir
			}
			return nil
		}
		dst := filepath.Join(to, rel)
		if d.IsDir() {
			return os.MkdirAll(dst, 0o755)
		}
		if !d.Type().IsRegular() {
			return nil
		}
		b, err := os.ReadFile(p)
		if err != nil {
			return err
		}
		return os.WriteFile(dst, b, 0o644)
	})
}

// copyDirFiles copies the regular non-test files of one package directory.
func copyDirFiles(from, to string) error {
	if err := os.MkdirAll(to, 0o755); err != nil {
		return err
	}
	ents, err := os.ReadDir(from)
	if err != nil {
		return err
	}
	for _, e := range ents {
		if !e.Type().IsRegular() || strings.HasSuffix(e.Name(), "_test.go") {
			continue
		}
		b, err := os.ReadFile(filepath.Join(from, e.Name()))
		if err != nil {
			return err
		}
		if err := os.WriteFile(filepath.Join(to, e.Name()), b, 0o644); err != nil {
			return err
		}
	}
	return nil
}

func goEnv() []string {
	env := os.Environ()
	env = append(env, "GOFLAGS=-mod=mod", "GOPROXY=off", "GOSUMDB=off", "GOTOOLCHAIN=local", "GOWORK=off", "CGO_ENABLED=0")
	return env
}

func goCmd(dir string, args ...string) string {
	cmd := exec.Command("go", args...)
	cmd.Dir = dir
	cmd.Env = goEnv()
	var stdout, stderr bytes.Buffer
	cmd.Stdout, cmd.Stderr = &stdout, &stderr
	if err := cmd.Run(); err != nil {
		fmt.Fprintf(os.Stderr, "instrument: go %s failed: %v\n%s\n", strings.Join(args, " "), err, stderr.String())
		os.Exit(2)
	}
	return stdout.String()
}

func must(err error) {
	if err != nil {
		fatal(err.Error())
	}
}

func fatal(msg string) {
	fmt.Fprintln(os.Stderr, "instrument:", msg)
	os.Exit(2)
}
