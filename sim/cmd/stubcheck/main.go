// stubcheck: differential check of the simulated file system (verifsim/simrt) against the real operating system.
package main

import (
	"flag"
	"fmt"
	"os"

	"verifsim/internal/sim"
)

func main() {
	seed := flag.Int64("seed", 1, "seed")
	n := flag.Int("sequences", 2000, "operation sequences")
	ops := flag.Int("ops", 40, "operations per sequence")
	flag.Parse()
	total, bad := sim.StubCheck(*seed, *n, *ops)
	fmt.Printf("stubcheck: %d operations compared in %d sequences, %d disagreements\n", total, *n, len(bad))
	for _, b := range bad {
		fmt.Println("  " + b)
	}
	if len(bad) > 0 {
		os.Exit(2)
	}
}
