// Command simcheck decides one property by deterministic simulation:
//
//	simcheck <ID> [-tier quick|thorough] [-seed N]     explore (VERIF_SEED / VERIF_TIER honoured)
//	simcheck <ID> -replay FILE                         re-execute a replay file
//
// exit 0: property held on everything explored (known findings are listed)
// exit 1: "VIOLATION property=<id> replay=<path>" printed
// exit 2: harness trouble (build, instrumenter, watchdog, self-test, fidelity)
package main

import (
	"encoding/json"
	"flag"
	"fmt"
	"os"
	"os/exec"
	"path/filepath"
	"runtime"
	"runtime/pprof"
	"sort"
	"strconv"
	"strings"
	"sync"
	"testing"
	"time"

	"verifsim/internal/sim"
)

type budget struct {
	quickCases, quickSecs, thoroughCases, thoroughSecs int
}

// cases are per shard
var budgets = map[string]budget{
	"C12": {200, 60, 12000, 1500},
	"C18": {60, 45, 6000, 1800},
	"C20": {150, 60, 10000, 1800},
	"C10": {200, 60, 12000, 1500},
}

func main() {
	testing.Init()
	tier := flag.String("tier", envOr("VERIF_TIER", "quick"), "quick or thorough")
	seedF := flag.Uint64("seed", envUint("VERIF_SEED", 1), "seed")
	replay := flag.String("replay", "", "replay file")
	shard := flag.Int("shard", -1, "internal: run one shard")
	statsOut := flag.String("stats-out", "", "internal: shard statistics file")
	shards := flag.Int("shards", 0, "number of shard processes (default: cores)")
	cases := flag.Int("cases", 0, "override cases per shard")
	secs := flag.Int("secs", 0, "override wall-clock budget in seconds")
	census := flag.Bool("census", false, "triage aid: count every discrepancy signature, report nothing as violation")
	if len(os.Args) < 2 {
		fmt.Fprintln(os.Stderr, "usage: simcheck <property> [flags]")
		os.Exit(2)
	}
	id := os.Args[1]
	_ = flag.CommandLine.Parse(os.Args[2:])
	p, ok := sim.Properties[id]
	if !ok {
		fmt.Fprintln(os.Stderr, "simcheck: unknown property", id)
		os.Exit(2)
	}
	if *tier != "quick" && *tier != "thorough" {
		*tier = "quick"
	}
	b := budgets[id]
	nCases, nSecs := b.quickCases, b.quickSecs
	if *tier == "thorough" {
		nCases, nSecs = b.thoroughCases, b.thoroughSecs
	}
	if *cases > 0 {
		nCases = *cases
	}
	if *secs > 0 {
		nSecs = *secs
	}

	if *shard >= 0 {
		runShard(p, *tier, *seedF, *shard, nCases, nSecs, *statsOut, *census)
		return
	}

	start := time.Now()
	bins, err := sim.Build()
	if err != nil {
		fmt.Fprintln(os.Stderr, "simcheck:", err)
		os.Exit(2)
	}
	defer bins.Cleanup()

	if *replay != "" {
		rep, ident, ds, err := sim.ReplayFile(*replay, bins)
		if err != nil {
			fmt.Fprintln(os.Stderr, "simcheck: replay:", err)
			bins.Cleanup()
			os.Exit(2)
		}
		for _, d := range ds {
			fmt.Printf("discrepancy: %s\n  %s\n", d.Sig, d.Detail)
		}
		fmt.Printf("replay: reproduced=%v identical_execution=%v\n", rep, ident)
		if rep {
			fmt.Printf("VIOLATION property=%s replay=%s\n", id, *replay)
			bins.Cleanup()
			os.Exit(1)
		}
		return
	}

	n := *shards
	if n <= 0 {
		n = runtime.NumCPU()
		if n > 16 {
			n = 16
		}
	}
	tmp, err := os.MkdirTemp("", "verif-shards-")
	if err != nil {
		fmt.Fprintln(os.Stderr, "simcheck:", err)
		os.Exit(2)
	}
	defer os.RemoveAll(tmp)
	self, _ := os.Executable()
	var wg sync.WaitGroup
	shardErr := make([]error, n)
	for i := 0; i < n; i++ {
		wg.Add(1)
		go func(i int) {
			defer wg.Done()
			cmd := exec.Command(self, id, "-tier", *tier, "-seed", strconv.FormatUint(*seedF, 10), "-shard", strconv.Itoa(i),
				"-stats-out", filepath.Join(tmp, fmt.Sprintf("s%d.json", i)), "-cases", strconv.Itoa(nCases), "-secs", strconv.Itoa(nSecs), "-census="+strconv.FormatBool(*census))
			cmd.Env = append(os.Environ(), "VERIF_BINS="+bins.Dir, "VERIF_DIR="+sim.VerifDir())
			cmd.Stderr = os.Stderr
			shardErr[i] = cmd.Run()
		}(i)
	}
	wg.Wait()

	total := sim.NewStats()
	harness := 0
	for i := 0; i < n; i++ {
		b, err := os.ReadFile(filepath.Join(tmp, fmt.Sprintf("s%d.json", i)))
		if err != nil || shardErr[i] != nil {
			fmt.Fprintf(os.Stderr, "simcheck: shard %d failed: %v %v\n", i, shardErr[i], err)
			harness++
			continue
		}
		var s sim.Stats
		if err := json.Unmarshal(b, &s); err != nil {
			harness++
			continue
		}
		merge(total, &s)
	}

	// report
	known := sim.LoadKnown()
	for _, k := range known {
		if k.Property == id && total.KnownHit[k.Signature] > 0 {
			fmt.Printf("KNOWN-FINDING: property=%s %s [signature %s, hit %d times]\n", id, k.What, k.Signature, total.KnownHit[k.Signature])
		}
	}
	repDir := filepath.Join(sim.VerifDir(), "replays")
	if d := os.Getenv("VERIF_REPLAY_DIR"); d != "" {
		repDir = d
	}
	_ = os.MkdirAll(repDir, 0o755)
	seen := map[string]bool{}
	nviol := 0
	unreproducible := 0
	suppressed := 0
	for _, v := range total.Violations {
		if seen[v.Signature] {
			continue
		}
		seen[v.Signature] = true
		if nviol >= 40 {
			// one broken error path shows under hundreds of signatures (every cell of the
			// catalogue battery): 40 minimised replay files are enough to act on
			suppressed++
			continue
		}
		nviol++
		path := filepath.Join(repDir, fmt.Sprintf("%s-%s.json", id, hash(v.Signature)))
		vb, _ := json.MarshalIndent(v, "", " ")
		_ = os.WriteFile(path, vb, 0o644)
		// replay in a fresh process must fail the same way
		// the minimised case must fail the same way when replayed from its file by fresh
		// simulated processes; if it does not, it is harness trouble, never a verdict
		rep, ident, _, rerr := sim.ReplayFile(path, bins)
		statistical := false
		if rerr == nil && !rep {
			// not deterministic: a source the simulator does not own (goroutine, address order)?
			for a := 0; a < 12 && !rep; a++ {
				rep, _, _, rerr = sim.ReplayFile(path, bins)
			}
			statistical = rep
		}
		if rerr != nil || !rep {
			fmt.Fprintf(os.Stderr, "simcheck: violation %s did not reproduce from its replay file %s (err=%v): not reported\n", v.Signature, path, rerr)
			unreproducible++
			nviol--
			continue
		}
		fmt.Printf("violation: %s\n  %s\n", v.Signature, v.Detail)
		fmt.Printf("  replay check: reproduced=%v identical_execution=%v\n", rep, ident)
		if statistical {
			fmt.Printf("  NOTE: this violation reproduces only in some replays of the same file: the difference comes from a source the simulator does not control (goroutine scheduling, address order, real clock); the replay shows it statistically\n")
		}
		fmt.Printf("VIOLATION property=%s replay=%s\n", id, path)
	}
	if suppressed > 0 {
		fmt.Printf("(%d further distinct violation signatures not listed)\n", suppressed)
	}
	wall := time.Since(start).Seconds()
	if *census {
		var ks []string
		for k := range total.Counters {
			if strings.HasPrefix(k, "sig:") {
				ks = append(ks, k)
			}
		}
		sort.Strings(ks)
		for _, k := range ks {
			fmt.Printf("census %6d  %s\n", total.Counters[k], strings.TrimPrefix(k, "sig:"))
		}
		return
	}
	// the stub under everything: the simulated file system, compared operation by operation with the real one
	stubSeqs := 400
	if *tier == "thorough" {
		stubSeqs = 20000
	}
	stubOps, stubBad := sim.StubCheck(int64(*seedF), stubSeqs, 40)
	total.Counters["stub_ops_compared"] = stubOps
	total.Counters["stub_disagreements"] = len(stubBad)
	writeEvidence(p, id, *tier, *seedF, n, total, bins, wall, nviol)
	fmt.Printf("simcheck %s tier=%s seed=%d: cases=%d runs=%d nontrivial=%d schedules=%d faults_fired=%d selftest=%d/%d fidelity=%d/%d wall=%.1fs\n",
		id, *tier, *seedF, total.Cases, total.Runs, len(total.Nontrivial), len(total.Schedules), sum(total.FaultsFired),
		total.SelfTestRuns-total.SelfTestMism, total.SelfTestRuns, total.FidelityWorlds-total.FidelityMism, total.FidelityWorlds, wall)
	if nviol > 0 {
		bins.Cleanup()
		os.RemoveAll(tmp)
		os.Exit(1)
	}
	if unreproducible > 0 {
		harness += unreproducible
	}
	for _, m := range stubBad {
		fmt.Fprintf(os.Stderr, "simcheck: simulated file system disagrees with the real one: %s\n", m)
	}
	if harness > 0 || total.FidelityMism > 0 || total.SelfTestMism > 0 || total.Counters["rapid_harness_failure"] > 0 || len(stubBad) > 0 {
		fmt.Fprintf(os.Stderr, "simcheck: harness trouble: shards_failed=%d fidelity_mismatches=%d selftest_mismatches=%d rapid=%d\n",
			harness, total.FidelityMism, total.SelfTestMism, total.Counters["rapid_harness_failure"])
		for _, m := range total.FidelityMsgs {
			fmt.Fprintf(os.Stderr, "  fidelity: %s\n", m)
		}
		bins.Cleanup()
		os.RemoveAll(tmp)
		os.Exit(2)
	}
}

func runShard(p sim.Property, tier string, seed uint64, shard, nCases, nSecs int, out string, census bool) {
	_ = flag.Set("rapid.checks", strconv.Itoa(nCases))
	_ = flag.Set("rapid.seed", strconv.FormatUint(seed*64+uint64(shard)+1, 10))
	_ = flag.Set("rapid.nofailfile", "true")
	st := "45s"
	if tier == "quick" {
		st = "12s"
	}
	_ = flag.Set("rapid.shrinktime", st)
	bins, err := sim.Build()
	if err != nil {
		fmt.Fprintln(os.Stderr, err)
		os.Exit(2)
	}
	env := &sim.Env{Bins: bins, Tier: tier, Seed: seed, Shard: shard, Deadline: time.Now().Add(time.Duration(nSecs) * time.Second),
		Known: sim.LoadKnown(), Stats: sim.NewStats(), Budget: nCases, Census: census}
	if pf := os.Getenv("VERIF_CPUPROFILE"); pf != "" {
		f, _ := os.Create(pf)
		_ = pprof.StartCPUProfile(f)
		defer pprof.StopCPUProfile()
	}
	sim.RunShard(p, env)
	pprof.StopCPUProfile()
	b, _ := json.Marshal(env.Stats)
	if err := os.WriteFile(out, b, 0o644); err != nil {
		fmt.Fprintln(os.Stderr, err)
		os.Exit(2)
	}
}

func merge(t, s *sim.Stats) {
	t.Cases += s.Cases
	t.Runs += s.Runs
	t.SimSteps += s.SimSteps
	t.MapEvents += s.MapEvents
	t.Nontrivial = uniq(append(t.Nontrivial, s.Nontrivial...))
	t.Schedules = uniq(append(t.Schedules, s.Schedules...))
	t.FeatVectors = uniq(append(t.FeatVectors, s.FeatVectors...))
	addMap(t.FaultsConf, s.FaultsConf)
	addMap(t.FaultsFired, s.FaultsFired)
	addMap(t.FaultOps, s.FaultOps)
	addMap(t.MapSites, s.MapSites)
	addMap(t.Probes, s.Probes)
	addMap(t.ExitCodes, s.ExitCodes)
	addMap(t.KnownHit, s.KnownHit)
	addMap(t.Counters, s.Counters)
	if len(t.Samples) < 4 {
		t.Samples = append(t.Samples, s.Samples...)
	}
	t.SelfTestRuns += s.SelfTestRuns
	t.SelfTestMism += s.SelfTestMism
	t.FidelityWorlds += s.FidelityWorlds
	t.FidelityMism += s.FidelityMism
	t.FidelityMsgs = append(t.FidelityMsgs, s.FidelityMsgs...)
	t.Violations = append(t.Violations, s.Violations...)
	if s.WallS > t.WallS {
		t.WallS = s.WallS
	}
}

func addMap(a, b map[string]int) {
	for k, v := range b {
		if strings.HasPrefix(k, "max_") {
			if v > a[k] {
				a[k] = v
			}
			continue
		}
		a[k] += v
	}
}

func uniq(a []string) []string {
	sort.Strings(a)
	out := a[:0]
	for i, s := range a {
		if i == 0 || s != a[i-1] {
			out = append(out, s)
		}
	}
	return out
}

func sum(m map[string]int) int {
	n := 0
	for _, v := range m {
		n += v
	}
	return n
}

func hash(s string) string {
	h := uint64(14695981039346656037)
	for i := 0; i < len(s); i++ {
		h ^= uint64(s[i])
		h *= 1099511628211
	}
	return fmt.Sprintf("%012x", h&0xffffffffffff)
}

func envOr(k, d string) string {
	if v := os.Getenv(k); v != "" {
		return v
	}
	return d
}

func envUint(k string, d uint64) uint64 {
	if v := os.Getenv(k); v != "" {
		if n, err := strconv.ParseUint(strings.TrimSpace(v), 10, 64); err == nil {
			return n
		}
	}
	return d
}

func writeEvidence(p sim.Property, id, tier string, seed uint64, shards int, s *sim.Stats, bins *sim.Bins, wall float64, nviol int) {
	var rep any
	_ = json.Unmarshal(bins.Report, &rep)
	samples := s.Samples
	if len(samples) > 3 {
		samples = samples[:3]
	}
	if len(samples) == 0 {
		samples = []any{"no case executed"}
	}
	var seeds []uint64
	for i := 0; i < shards; i++ {
		seeds = append(seeds, seed*64+uint64(i)+1)
	}
	runsPerHour := 0.0
	if wall > 0 {
		runsPerHour = float64(s.Runs) / wall * 3600
	}
	cov := map[string]any{
		"evaluations":                   s.Runs,
		"distinct_nontrivial":           len(s.Nontrivial),
		"rule":                          p.Rule(),
		"samples":                       samples,
		"cases":                         s.Cases,
		"simulated_runs":                s.Runs,
		"runs_per_hour":                 int(runsPerHour),
		"rapid_seeds":                   seeds,
		"sim_io_steps":                  s.SimSteps,
		"simulated_time_note":           "the system under test has no timers, sleeps or deadlines; the only meaningful simulated time is the count of I/O steps and map-order events (reported here); the simulated clock is advanced one second per read and was read " + strconv.Itoa(s.Probes["clock"]) + " times",
		"map_order_events":              s.MapEvents,
		"faults_configured":             s.FaultsConf,
		"faults_fired":                  s.FaultsFired,
		"fault_ops":                     s.FaultOps,
		"map_sites_permuted":            s.MapSites,
		"distinct_schedules":            len(s.Schedules),
		"world_feature_vectors":         len(s.FeatVectors),
		"exit_codes":                    s.ExitCodes,
		"probes":                        s.Probes,
		"counters":                      s.Counters,
		"known_findings_hit":            s.KnownHit,
		"determinism_selftest":          map[string]int{"runs": s.SelfTestRuns, "mismatches": s.SelfTestMism},
		"fidelity":                      map[string]int{"worlds": s.FidelityWorlds, "mismatches": s.FidelityMism},
		"traces_validated_against_impl": s.FidelityWorlds - s.FidelityMism,
		"stub_validation": map[string]any{"what": "seeded random sequences of file operations (open flag combinations, read, write, seek, close, mkdir(all), remove, rename, symlink, stat, lstat, readdir, readlink, evalsymlinks, abs; paths with ., .., trailing slashes, links) applied to the simulated file system and to a real directory; every result, errno and the final trees compared",
			"operations_compared": s.Counters["stub_ops_compared"], "disagreements": s.Counters["stub_disagreements"]},
		"instrumenter":                  rep,
		"components": map[string]any{
			"real": []string{"main.go (flag parsing, write loop, exit path)", "pkg/generator", "pkg/schemas", "pkg/codegen", "pkg/yamlutils", "internal/x/text",
				"cobra", "pflag", "encoding/json", "goccy/go-yaml", "mergo", "litter", "go-cmp", "go/format", "net/http client"},
			"stub": []string{"file system (in-memory VFS)", "stdin/stdout/stderr", "process exit", "HTTP transport (http.DefaultTransport)", "clock", "environment", "pid/hostname",
				"map iteration order (every range-over-map / MapKeys in the main module and all linked third-party modules)"},
		},
		"exhaustive": false,
	}
	ev := map[string]any{
		"property_id": id,
		"tier":        tier,
		"seed":        seed,
		"level":       p.Level(),
		"coverage":    cov,
		"assumptions": []string{
			"the instrumented scratch copy behaves like the shipped program (checked per run by the fidelity cross-check against the untouched binary built from the same sources)",
			"map iteration inside the Go standard library is not controlled (encoding/json sorts map keys; no other std map iteration reaches the output)",
			"sampling, not proof: worlds are bounded as described in rule",
		},
		"wall_s":     wall,
		"violations": nviol,
	}
	b, _ := json.MarshalIndent(ev, "", " ")
	dir := filepath.Join(sim.VerifDir(), "evidence")
	if d := os.Getenv("VERIF_EVIDENCE_DIR"); d != "" { // sensitivity runs against scratch trees must not touch the real evidence
		dir = d
	}
	_ = os.MkdirAll(dir, 0o755)
	_ = os.WriteFile(filepath.Join(dir, id+".json"), b, 0o644)
}
