package sim

import (
	"errors"
	"fmt"
	"io"
	"io/fs"
	"math/rand"
	"os"
	"path/filepath"
	"sort"
	"strings"
	"syscall"

	"verifsim/simrt"
)

// StubCheck validates the one component of the simulation that is a stub - the in-memory file system behind the
// os / filepath shims - against the real operating system: seeded random sequences of file operations are applied
// to a fresh real directory and to the simulated file system rooted at the same absolute path; every result
// (data, counts, offsets, errno class, stat kind and size, directory listings, link targets) and the final trees
// must agree. Returns the number of operations compared and a description of each disagreement.
func StubCheck(seed int64, sequences, opsPerSeq int) (int, []string) {
	var bad []string
	total := 0
	for s := 0; s < sequences; s++ {
		rng := rand.New(rand.NewSource(seed*1000003 + int64(s)))
		n, msg := stubSequence(rng, opsPerSeq)
		total += n
		if msg != "" {
			bad = append(bad, fmt.Sprintf("sequence %d (seed %d): %s", s, seed, msg))
			if len(bad) >= 5 {
				break
			}
		}
	}
	return total, bad
}

type realFS struct{}
type handle struct {
	r *os.File
	s *simrt.File
}

func errClass(err error) string {
	if err == nil {
		return "ok"
	}
	if err == io.EOF {
		return "EOF"
	}
	var en syscall.Errno
	if errors.As(err, &en) {
		return en.Error()
	}
	switch {
	case errors.Is(err, fs.ErrClosed):
		return "closed"
	case errors.Is(err, io.ErrShortWrite):
		return "short"
	case errors.Is(err, fs.ErrNotExist):
		return "notexist"
	case errors.Is(err, fs.ErrExist):
		return "exist"
	case errors.Is(err, fs.ErrInvalid):
		return "invalid"
	}
	return "other:" + err.Error()
}

// okFail: for operations on two paths the errno of a doubly wrong call depends on the kernel's order of checks;
// only success or failure (and the resulting tree) is compared there.
func okFail(err error) string {
	if err == nil {
		return "ok"
	}
	return "fail"
}

func infoStr(fi fs.FileInfo, err error) string {
	if err != nil {
		return errClass(err)
	}
	k := "f"
	switch {
	case fi.IsDir():
		k = "d"
	case fi.Mode()&fs.ModeSymlink != 0:
		k = "l"
	}
	if k == "f" {
		return fmt.Sprintf("%s:%s:%d", fi.Name(), k, fi.Size())
	}
	return fmt.Sprintf("%s:%s", fi.Name(), k)
}

func stubSequence(rng *rand.Rand, nops int) (int, string) {
	root, err := os.MkdirTemp("", "verif-stub-")
	if err != nil {
		return 0, ""
	}
	defer os.RemoveAll(root)
	root, _ = filepath.EvalSymlinks(root)
	simrt.LoadForStubCheck(simrt.Spec{Cwd: root, FS: []simrt.Node{{Path: root, Kind: "d"}}})
	oldwd, _ := os.Getwd()
	if err := os.Chdir(root); err != nil {
		return 0, ""
	}
	defer os.Chdir(oldwd)
	names := []string{"a", "b", "c"}
	pick := func() string {
		depth := 1 + rng.Intn(3)
		var parts []string
		for i := 0; i < depth; i++ {
			switch rng.Intn(12) {
			case 0:
				parts = append(parts, "..")
			case 1:
				parts = append(parts, ".")
			default:
				parts = append(parts, names[rng.Intn(len(names))])
			}
		}
		if l := parts[len(parts)-1]; l == "." || l == ".." {
			parts[len(parts)-1] = names[rng.Intn(len(names))] // the last component is always a name (see DESIGN: limits)
		}
		p := strings.Join(parts, "/")
		switch rng.Intn(8) {
		case 0:
			p = filepath.Join(root, p)
			if !strings.HasPrefix(p, root) {
				p = root
			}
		case 1:
			p = "./" + p
		case 2:
			p += "/"
		}
		// never leave the sandbox directory
		abs := filepath.Join(root, p)
		if filepath.IsAbs(p) {
			abs = filepath.Clean(p)
		}
		if !strings.HasPrefix(abs+"/", root+"/") || abs == root {
			return "a"
		}
		return p
	}
	var hs []handle
	isDirHandle := func(h handle) bool { // reading and seeking directory handles is file-system specific: not compared
		fi, err := h.r.Stat()
		return err == nil && fi.IsDir()
	}
	cmp := func(op string, a, b any) string {
		if fmt.Sprint(a) != fmt.Sprint(b) {
			return fmt.Sprintf("%s: real=%v simulated=%v", op, a, b)
		}
		return ""
	}
	log := []string{}
	count := 0
	for i := 0; i < nops; i++ {
		var m string
		count++
		switch k := rng.Intn(22); k {
		case 0:
			p := pick()
			log = append(log, "mkdir "+p)
			m = cmp("mkdir "+p, errClass(os.Mkdir(p, 0o755)), errClass(simrt.Mkdir(p, 0o755)))
		case 1:
			p := pick()
			log = append(log, "mkdirall "+p)
			m = cmp("mkdirall "+p, errClass(os.MkdirAll(p, 0o755)), errClass(simrt.MkdirAll(p, 0o755)))
		case 2, 3:
			p := pick()
			data := []byte(strings.Repeat("x", rng.Intn(40)))
			log = append(log, fmt.Sprintf("writefile %s %d", p, len(data)))
			m = cmp("writefile "+p, errClass(os.WriteFile(p, data, 0o644)), errClass(simrt.WriteFile(p, data, 0o644)))
		case 4:
			p := pick()
			log = append(log, "readfile "+p)
			a, ea := os.ReadFile(p)
			b, eb := simrt.ReadFile(p)
			m = cmp("readfile "+p, fmt.Sprint(len(a), string(a), errClass(ea)), fmt.Sprint(len(b), string(b), errClass(eb)))
		case 5, 6:
			p := pick()
			flags := []int{os.O_RDONLY, os.O_WRONLY, os.O_RDWR, os.O_WRONLY | os.O_CREATE, os.O_RDWR | os.O_CREATE, os.O_WRONLY | os.O_CREATE | os.O_TRUNC,
				os.O_WRONLY | os.O_CREATE | os.O_EXCL, os.O_WRONLY | os.O_APPEND, os.O_RDWR | os.O_CREATE | os.O_APPEND, os.O_WRONLY | os.O_TRUNC}
			fl := flags[rng.Intn(len(flags))]
			log = append(log, fmt.Sprintf("open %s %#x", p, fl))
			a, ea := os.OpenFile(p, fl, 0o644)
			b, eb := simrt.OpenFile(p, fl, 0o644)
			m = cmp(fmt.Sprintf("open %s flags=%#x", p, fl), errClass(ea), errClass(eb))
			if ea == nil && eb == nil {
				hs = append(hs, handle{a, b})
			} else if ea == nil {
				a.Close()
			}
		case 7, 8:
			if len(hs) == 0 {
				continue
			}
			h := hs[rng.Intn(len(hs))]
			data := []byte(strings.Repeat("w", 1+rng.Intn(30)))
			log = append(log, fmt.Sprintf("write %s %d", h.r.Name(), len(data)))
			na, ea := h.r.Write(data)
			nb, eb := h.s.Write(data)
			m = cmp("write "+h.r.Name(), fmt.Sprint(na, errClass(ea)), fmt.Sprint(nb, errClass(eb)))
		case 9, 10:
			if len(hs) == 0 {
				continue
			}
			h := hs[rng.Intn(len(hs))]
			if isDirHandle(h) {
				continue
			}
			n := rng.Intn(25)
			log = append(log, fmt.Sprintf("read %s %d", h.r.Name(), n))
			ba, bb := make([]byte, n), make([]byte, n)
			na, ea := h.r.Read(ba)
			nb, eb := h.s.Read(bb)
			m = cmp("read "+h.r.Name(), fmt.Sprint(na, string(ba[:na]), errClass(ea)), fmt.Sprint(nb, string(bb[:nb]), errClass(eb)))
		case 11:
			if len(hs) == 0 {
				continue
			}
			h := hs[rng.Intn(len(hs))]
			if isDirHandle(h) {
				continue
			}
			off, wh := int64(rng.Intn(50)-5), rng.Intn(3)
			log = append(log, fmt.Sprintf("seek %s %d %d", h.r.Name(), off, wh))
			pa, ea := h.r.Seek(off, wh)
			pb, eb := h.s.Seek(off, wh)
			if ea != nil {
				pa = 0
			}
			if eb != nil {
				pb = 0
			}
			m = cmp("seek "+h.r.Name(), fmt.Sprint(pa, errClass(ea)), fmt.Sprint(pb, errClass(eb)))
		case 12:
			if len(hs) == 0 {
				continue
			}
			j := rng.Intn(len(hs))
			h := hs[j]
			log = append(log, "close "+h.r.Name())
			m = cmp("close "+h.r.Name(), errClass(h.r.Close()), errClass(h.s.Close()))
			if rng.Intn(4) != 0 {
				hs = append(hs[:j], hs[j+1:]...)
			}
		case 13:
			p := pick()
			log = append(log, "stat "+p)
			a, ea := os.Stat(p)
			b, eb := simrt.Stat(p)
			m = cmp("stat "+p, infoStr(a, ea), infoStr(b, eb))
		case 14:
			p := pick()
			log = append(log, "lstat "+p)
			a, ea := os.Lstat(p)
			b, eb := simrt.Lstat(p)
			m = cmp("lstat "+p, infoStr(a, ea), infoStr(b, eb))
		case 15:
			p := pick()
			log = append(log, "readdir "+p)
			a, ea := os.ReadDir(p)
			b, eb := simrt.ReadDir(p)
			var la, lb []string
			for _, e := range a {
				la = append(la, fmt.Sprint(e.Name(), e.IsDir(), e.Type()&fs.ModeSymlink != 0))
			}
			for _, e := range b {
				lb = append(lb, fmt.Sprint(e.Name(), e.IsDir(), e.Type()&fs.ModeSymlink != 0))
			}
			m = cmp("readdir "+p, fmt.Sprint(la, errClass(ea)), fmt.Sprint(lb, errClass(eb)))
		case 16:
			p := pick()
			log = append(log, "remove "+p)
			m = cmp("remove "+p, errClass(os.Remove(p)), errClass(simrt.Remove(p)))
		case 17:
			a, b := pick(), pick()
			log = append(log, "rename "+a+" "+b)
			m = cmp("rename "+a+" -> "+b, okFail(os.Rename(a, b)), okFail(simrt.Rename(a, b)))
		case 18:
			tgt, p := strings.TrimRight(pick(), "/"), pick()
			log = append(log, "symlink "+tgt+" "+p)
			m = cmp("symlink "+tgt+" <- "+p, okFail(os.Symlink(tgt, p)), okFail(simrt.Symlink(tgt, p)))
		case 19:
			p := pick()
			log = append(log, "evalsymlinks "+p)
			a, ea := filepath.EvalSymlinks(p)
			b, eb := simrt.FilepathEvalSymlinks(p)
			if ea != nil {
				a = ""
			}
			if eb != nil {
				b = ""
			}
			m = cmp("evalsymlinks "+p, fmt.Sprint(a, errClass(ea)), fmt.Sprint(b, errClass(eb)))
		case 20:
			p := pick()
			log = append(log, "readlink "+p)
			a, ea := os.Readlink(p)
			b, eb := simrt.Readlink(p)
			m = cmp("readlink "+p, fmt.Sprint(a, errClass(ea)), fmt.Sprint(b, errClass(eb)))
		case 21:
			p := pick()
			log = append(log, "abs "+p)
			a, ea := filepath.Abs(p)
			b, eb := simrt.FilepathAbs(p)
			m = cmp("abs "+p, fmt.Sprint(a, errClass(ea)), fmt.Sprint(b, errClass(eb)))
		}
		if m != "" {
			for _, h := range hs {
				h.r.Close()
			}
			tail := log
			if len(tail) > 12 {
				tail = tail[len(tail)-12:]
			}
			return count, m + " after [" + strings.Join(tail, "; ") + "]"
		}
	}
	for _, h := range hs {
		h.r.Close()
		h.s.Close()
	}
	// final trees
	real := map[string]string{}
	_ = filepath.Walk(root, func(p string, fi fs.FileInfo, err error) error {
		if err != nil || p == root {
			return nil
		}
		switch {
		case fi.IsDir():
			real[p] = "d"
		case fi.Mode()&fs.ModeSymlink != 0:
			t, _ := os.Readlink(p)
			real[p] = "l:" + t
		default:
			b, _ := os.ReadFile(p)
			real[p] = "f:" + string(b)
		}
		return nil
	})
	sim := map[string]string{}
	for _, n := range simrt.SnapshotForStubCheck() {
		if n.Path == root || !strings.HasPrefix(n.Path, root+"/") {
			continue
		}
		switch n.Kind {
		case "d":
			sim[n.Path] = "d"
		case "l":
			sim[n.Path] = "l:" + n.Target
		default:
			sim[n.Path] = "f:" + string(n.Data)
		}
	}
	var keys []string
	for k := range real {
		keys = append(keys, k)
	}
	for k := range sim {
		if _, ok := real[k]; !ok {
			keys = append(keys, k)
		}
	}
	sort.Strings(keys)
	for _, k := range keys {
		if real[k] != sim[k] {
			return count, fmt.Sprintf("final tree differs at %s: real=%q simulated=%q", k, clipStr(real[k]), clipStr(sim[k]))
		}
	}
	return count, ""
}

func clipStr(s string) string {
	if len(s) > 60 {
		return s[:60] + "..."
	}
	return s
}
