package sim

import (
	"encoding/json"
	"fmt"
	"path/filepath"
	"regexp"
	"sort"
	"strings"
	"unicode"
	"unicode/utf8"
	"verifsim/simrt"

	"pgregory.net/rapid"
)

// C20: each schema's code lands once, in the file and package mapped to its id;
// reordering arguments or adding unrelated files does not change it.
type c20 struct{}

func init() { Properties["C20"] = c20{} }

func (c20) ID() string    { return "C20" }
func (c20) Level() string { return "exploration" }
func (c20) Rule() string {
	return "Cases: a rapid-drawn world of 1-4 tagged schema files (unique names per file, marker properties, cross-file refs in several spellings, ids, " +
		"1-3 Go packages with --schema-package/--schema-output mappings, options) and a set of DoFile histories on one generator: every file alone " +
		"(singleton histories) plus drawn (thorough: all, when <=3 files) orderings of non-empty subsets as argument lists, each argument spelled " +
		"relative / ./ / absolute. Oracles: U compositional: per output file, declarations(history S) = union of declarations(singleton s), same text, " +
		"nothing missing/extra/duplicated, same imports, same package clause, same exit class; R routing: the struct holding marker mk_<tag> is in the " +
		"file/package mapped to the schema's id (or the defaults), exactly once; X every pkg.Type qualifier has a matching import of the mapped " +
		"package path and names a type declared in that package's emitted files. A case is non-trivial iff it has >=2 files, >=1 cross-file ref and " +
		">=1 composite history with >=2 arguments; distinct = hash of all run specs."
}

type c20File struct {
	Tag     string   `json:"tag"`
	ID      string   `json:"id"`
	OutAbs  string   `json:"out_abs"` // expected output ("-" = stdout)
	PkgPath string   `json:"pkg_path"`
	Markers []string `json:"markers"`
	Abs     string   `json:"abs"`
}

type c20Meta struct {
	Files    []c20File           `json:"files"`
	RunTags  [][]string          `json:"run_tags"` // per run: tags of the arguments, in order
	Spell    map[string][]string `json:"spell"`    // tag -> distinct ref spellings used inside documents
	ArgSpell [][]string          `json:"arg_spell"`
	RunArgs  [][]string          `json:"run_args"`
	MinSized bool                `json:"min_sized"`
	Cycle    bool                `json:"cross_file_cycle"`
	// CrossPkgCombo / CrossPkgAnyOf: an allOf/anyOf (resp. anyOf) branch $ref crosses packages
	CrossPkgCombo bool `json:"crosspackage_combinator_ref"`
	// RefsTo: file-level reference graph (tag -> tags it refers to)
	RefsTo map[string][]string `json:"refs_to,omitempty"`
	// RespelledOutput: two ids are mapped to one output file under different spellings (out/x.go, ./out/x.go)
	RespelledOutput bool `json:"respelled_output,omitempty"`
	// RefCompositions: number of allOf/anyOf nodes with a $ref branch in the world's documents (two or more: a
	// merged target may be reached by several compositions - known finding KF-C20-5)
	RefCompositions int  `json:"ref_compositions"`
	CrossPkgAnyOf   bool `json:"crosspackage_anyof_ref"`
	// Clash3: three structurally different definitions of three files share one Go name in
	// one package (Clash, Clash_1, Clash_2 by processing order): U cannot apply (naming is
	// order dependent by design), only "nothing declared twice", routing and exit status
	Clash3 bool              `json:"clash3"`
	Pkgs   map[string]string `json:"pkgs"` // package base name -> path
}

func expectedRouting(w *World, f *SFile) (outAbs, pkgPath string) {
	out := w.Opts.Output
	pkg := w.Opts.Package
	for _, p := range w.Opts.SchemaOut {
		if p.K == f.ID {
			out = p.V
		}
	}
	mapped, outMapped := false, false
	for _, p := range w.Opts.SchemaOut {
		if p.K == f.ID {
			mapped, outMapped = true, true
		}
	}
	for _, p := range w.Opts.SchemaPkg {
		if p.K == f.ID {
			pkg = p.V
			mapped = true
		}
	}
	for _, p := range w.Opts.SchemaRoot {
		if p.K == f.ID {
			mapped = true
		}
	}
	if mapped && !outMapped {
		// an id that has a mapping but no --schema-output is not emitted at all
		// (library feature pinned by the crossPackageNoOutput golden)
		return "", pkg
	}
	if out == "" || out == "-" {
		return "-", pkg
	}
	if strings.HasPrefix(out, "outlnk/../") {
		out = "deep/" + strings.TrimPrefix(out, "outlnk/../") // outlnk -> deep/dir (see Gen)
	}
	if !filepath.IsAbs(out) {
		out = filepath.Join(w.Cwd, out)
	}
	return out, pkg
}

func markersOf(f *SFile) []string {
	var ms []string
	if f.RootObj {
		ms = append(ms, "mk_"+f.Tag)
	}
	for _, d := range f.Defs {
		ms = append(ms, "mk_"+f.Tag+"_"+d)
	}
	return ms
}

func buildC20Meta(w *World) c20Meta {
	m := c20Meta{Spell: map[string][]string{}, MinSized: w.Opts.MinSized, Pkgs: map[string]string{}, Cycle: hasCrossFileCycle(w), RefCompositions: countRefCompositions(w)}
	for _, f := range w.Files {
		out, pkg := expectedRouting(w, f)
		m.Files = append(m.Files, c20File{Tag: f.Tag, ID: f.ID, OutAbs: out, PkgPath: pkg, Markers: markersOf(f), Abs: filepath.Join(w.Root, f.Rel())})
		m.Pkgs[pkg[strings.LastIndex(pkg, "/")+1:]] = pkg
		for _, r := range f.Refs {
			if r.LocalOnly {
				continue
			}
			if m.RefsTo == nil {
				m.RefsTo = map[string][]string{}
			}
			m.RefsTo[f.Tag] = appendUniq(m.RefsTo[f.Tag], r.ToTag)
			if tf := w.File(r.ToTag); r.Combo != "" && tf != nil && tf.Pkg != f.Pkg {
				m.CrossPkgCombo = true
				if r.Combo == "anyOf" {
					m.CrossPkgAnyOf = true
				}
			}
			file := r.Ref
			if i := strings.Index(file, "#"); i >= 0 {
				file = file[:i]
			}
			m.Spell[r.ToTag] = appendUniq(m.Spell[r.ToTag], file)
		}
	}
	// an anyOf $ref branch anywhere becomes a cross-package one as soon as its document
	// is merged into another package by some cross-package combinator ref
	if m.CrossPkgCombo && hasAnyOfRefBranch(w) {
		m.CrossPkgAnyOf = true
	}
	return m
}

// hasAnyOfRefBranch: does any document contain an anyOf with a $ref branch?
// countRefCompositions: allOf/anyOf nodes that have a $ref branch.
func countRefCompositions(w *World) int {
	n := 0
	var walk func(v any)
	walk = func(v any) {
		switch x := v.(type) {
		case Obj:
			for _, kv := range x {
				if kv.K == "anyOf" || kv.K == "allOf" {
					if a, ok := kv.V.([]any); ok {
						for _, b := range a {
							if bo, ok := b.(Obj); ok {
								if _, isRef := bo.Get("$ref"); isRef {
									n++
									break
								}
							}
						}
					}
				}
				walk(kv.V)
			}
		case []any:
			for _, e := range x {
				walk(e)
			}
		}
	}
	for _, f := range w.Files {
		walk(f.Doc)
	}
	return n
}

func hasAnyOfRefBranch(w *World) bool {
	var walk func(v any) bool
	walk = func(v any) bool {
		switch x := v.(type) {
		case Obj:
			for _, kv := range x {
				if kv.K == "anyOf" {
					if a, ok := kv.V.([]any); ok {
						for _, b := range a {
							if bo, ok := b.(Obj); ok {
								if _, isRef := bo.Get("$ref"); isRef {
									return true
								}
							}
						}
					}
				}
				if walk(kv.V) {
					return true
				}
			}
		case []any:
			for _, e := range x {
				if walk(e) {
					return true
				}
			}
		}
		return false
	}
	for _, f := range w.Files {
		if walk(f.Doc) {
			return true
		}
	}
	return false
}

func appendUniq(a []string, s string) []string {
	for _, x := range a {
		if x == s {
			return a
		}
	}
	return append(a, s)
}

func (p c20) Gen(t *rapid.T, env *Env) (*Case, []*Out) {
	maxFiles := 3
	if env.Thorough() {
		maxFiles = 4
	}
	var w *World
	clash3 := rapid.IntRange(0, 11).Draw(t, "clash3") == 0
	if clash3 {
		w = clash3World(t)
	} else {
		w = GenWorldMulti(t, maxFiles)
	}
	if !clash3 && w.Cwd == w.Root && rapid.IntRange(0, 7).Draw(t, "outvialink") == 0 {
		// output names that pass through a symbolic link to a directory and come back with "..":
		// "outlnk/../out/gen.go" is deep/out/gen.go for the operating system (outlnk -> deep/dir), not out/gen.go;
		// a tool that tidies its output names lexically writes somewhere else
		cp := *w
		cp.Links = append(append([]Link{}, w.Links...), Link{Path: "outlnk", Target: "deep/dir"})
		cp.Extra = append(append([]simrt.Node{}, w.Extra...), simrt.Node{Path: filepath.Join(w.Root, "deep/dir"), Kind: "d"})
		via := func(v string) string {
			if v == "" || v == "-" || filepath.IsAbs(v) || strings.HasPrefix(v, RootPH) {
				return v
			}
			return "outlnk/../" + v
		}
		cp.Opts.Output = via(w.Opts.Output)
		cp.Opts.SchemaOut = nil
		for _, pr := range w.Opts.SchemaOut {
			cp.Opts.SchemaOut = append(cp.Opts.SchemaOut, Pair{pr.K, via(pr.V)})
		}
		w = &cp
	}
	if !clash3 && len(w.Opts.SchemaPkg) == 0 && len(w.Opts.SchemaOut) == 0 && len(w.Opts.SchemaRoot) == 0 && len(w.Files) >= 2 && w.Files[0].ID != "" && w.Files[1].ID != "" &&
		rapid.IntRange(0, 5).Draw(t, "emptyidmapping") == 0 {
		// one document has no $id and the EMPTY id is mapped to a package and file of its own; the other documents have
		// ids that are not mapped (they go to the defaults). "" is an id like any other.
		cp := *w
		cp.Files = append([]*SFile{}, w.Files...)
		k := rapid.IntRange(0, len(w.Files)-1).Draw(t, "idless")
		nf := *w.Files[k]
		nf.ID = ""
		nf.Pkg = 9 // a package of its own: the world-feature computations (cross-package references) go by this number
		nf.Doc = nf.Doc.Del("$id").Del("id")
		cp.Files[k] = &nf
		cp.Opts.SchemaPkg = []Pair{{"", "example.com/m/pke"}}
		cp.Opts.SchemaOut = []Pair{{"", "out/pke/gen.go"}}
		if cp.Opts.Output == "" || cp.Opts.Output == "-" {
			cp.Opts.Output = "out/main/gen.go"
		}
		w = &cp
	}
	respelled := false
	if !clash3 && rapid.IntRange(0, 11).Draw(t, "respelloutput") == 0 {
		// two ids share an output file, but the command line spells it differently for each
		seen := map[string]bool{}
		cp := *w
		cp.Opts.SchemaOut = nil
		for _, pr := range w.Opts.SchemaOut {
			v := pr.V
			if v != "-" && !filepath.IsAbs(v) && !strings.HasPrefix(v, "outlnk/") && !strings.HasPrefix(v, RootPH) && seen[v] && !respelled {
				v = rapid.SampledFrom([]string{"./" + v, strings.Replace(v, "/", "//", 1), strings.Replace(v, "/", "/./", 1)}).Draw(t, "respelling")
				respelled = true
			}
			seen[pr.V] = true
			cp.Opts.SchemaOut = append(cp.Opts.SchemaOut, Pair{pr.K, v})
		}
		if respelled {
			w = &cp
		}
	}
	env.Stats.NoteFeat(w.Feat)
	meta := buildC20Meta(w)
	meta.RespelledOutput = respelled
	meta.Clash3 = clash3
	c := &Case{Prop: "C20"}
	var outs []*Out
	addRun := func(label string, idx []int, spell []string) {
		var args, tags []string
		for k, i := range idx {
			args = append(args, w.ArgFor(w.Files[i], spell[k]))
			tags = append(tags, w.Files[i].Tag)
		}
		c.Runs = append(c.Runs, Run{Label: label, Spec: w.Spec("", nil, args)})
		meta.RunTags = append(meta.RunTags, tags)
		meta.ArgSpell = append(meta.ArgSpell, spell)
		meta.RunArgs = append(meta.RunArgs, args)
		outs = append(outs, env.Exec(&c.Runs[len(c.Runs)-1].Spec))
	}
	n := len(w.Files)
	for i := 0; i < n; i++ {
		addRun("singleton "+w.Files[i].Tag, []int{i}, []string{"rel"})
	}
	spellings := []string{"rel", "rel", "dot", "abs"}
	if env.Thorough() && n <= 3 {
		// all orderings of all non-empty subsets (singletons again with a drawn spelling)
		for _, idx := range allHistories(n) {
			sp := make([]string, len(idx))
			for k := range sp {
				sp[k] = rapid.SampledFrom(spellings).Draw(t, "sp")
			}
			addRun("history", idx, sp)
		}
	} else {
		k := rapid.IntRange(1, 5).Draw(t, "nhist")
		if env.Thorough() {
			k = rapid.IntRange(4, 12).Draw(t, "nhistT")
		}
		for h := 0; h < k; h++ {
			perm := rapid.Permutation(intsUpTo(n)).Draw(t, "perm")
			m := rapid.IntRange(1, n).Draw(t, "len")
			if n >= 2 && m == 1 && h == 0 {
				m = 2
			}
			idx := perm[:m]
			sp := make([]string, m)
			for k := range sp {
				sp[k] = rapid.SampledFrom(spellings).Draw(t, "sp")
			}
			addRun("history", idx, sp)
		}
	}
	c.Meta, _ = json.Marshal(meta)
	fw := w
	if respelled {
		// KF-C20-6: in these worlds the untouched binary itself is not deterministic (which of the two outputs of one
		// file survives follows the run-time map order), so there is nothing to compare the simulation with
		fw = nil
	}
	env.sampleChecks(fw, c.Runs[len(c.Runs)-1].Spec.Args[len(w.Opts.Argv(nil)):], c)
	return c, outs
}

// allHistories: every ordering of every non-empty subset of {0..n-1}.
func allHistories(n int) [][]int {
	var out [][]int
	var rec func(cur []int, used int)
	rec = func(cur []int, used int) {
		if len(cur) > 0 {
			out = append(out, append([]int(nil), cur...))
		}
		for i := 0; i < n; i++ {
			if used&(1<<i) == 0 {
				rec(append(cur, i), used|1<<i)
			}
		}
	}
	rec(nil, 0)
	return out
}

var dupSuffix = regexp.MustCompile(`_[0-9]+(\b|$)`)

type parsedRun struct {
	ok    bool
	files map[string]*GoFile
	raw   map[string][]byte
}

func parseRun(r *Run, o *Out) parsedRun {
	pr := parsedRun{files: map[string]*GoFile{}, raw: map[string][]byte{}}
	if o == nil || !o.HasRes || o.Res.Exit != 0 {
		return pr
	}
	pr.ok = true
	for path, b := range Outputs(&r.Spec, o) {
		pr.files[path] = ParseGo(b)
		pr.raw[path] = b
	}
	return pr
}

func (p c20) Eval(c *Case, outs []*Out) []Discrepancy {
	var meta c20Meta
	_ = json.Unmarshal(c.Meta, &meta)
	crossPkgComboWorld = meta.CrossPkgCombo
	multiCompositionWorld = meta.RefCompositions >= 2
	var ds []Discrepancy
	nf := len(meta.Files)
	if len(outs) < nf {
		return nil
	}
	runs := make([]parsedRun, len(outs))
	for i := range outs {
		runs[i] = parseRun(&c.Runs[i], outs[i])
	}
	single := map[string]int{}
	for i := 0; i < nf; i++ {
		single[meta.Files[i].Tag] = i
	}
	fileByTag := map[string]c20File{}
	for _, f := range meta.Files {
		fileByTag[f.Tag] = f
	}
	// the only world feature kept in signatures: do file references form a cycle?
	feat := func(tags []string, args []string) string {
		f := "acyclic"
		if meta.Cycle {
			f = "cross-file-cycle"
		}
		if meta.RespelledOutput {
			f += ":one-output-under-two-spellings" // known finding KF-C20-6
		}
		return f
	}
	for i := range outs {
		o := outs[i]
		tags := meta.RunTags[i]
		if o == nil {
			continue
		}
		ft := feat(tags, meta.RunArgs[i])
		add := func(clause, what, detail string) {
			ds = append(ds, Discrepancy{Sig: "C20|" + clause + "|" + ft + "|" + what, Detail: fmt.Sprintf("run %d (%s, args %v): %s", i, c.Runs[i].Label, tags, detail), Runs: []int{i}})
		}
		if !o.HasRes || o.TimedOut || o.Res.Panic != "" || o.Res.Overrun {
			add("U", "run-died", "the run did not end normally: "+clip(o.Stderr))
			continue
		}
		// expected exit class from the singletons
		anyFail := false
		for _, tg := range tags {
			so := outs[single[tg]]
			if so == nil || !so.HasRes || so.Res.Exit != 0 {
				anyFail = true
			}
		}
		if anyFail {
			if o.Res.Exit == 0 && len(tags) > 1 {
				add("U", "succeeds-though-a-singleton-fails", "a file that fails on its own does not fail this history")
			}
			continue
		}
		if o.Res.Exit != 0 {
			if i >= nf {
				add("U", "history-fails", fmt.Sprintf("every argument succeeds alone but this history exits %d: %s", o.Res.Exit, clip(o.Stderr)))
			}
			continue
		}
		run := runs[i]
		// ---- U
		if i >= nf && !meta.Clash3 {
			exp := map[string]map[string]string{} // file -> key -> text
			expImp := map[string]map[string]string{}
			expPkg := map[string]string{}
			conflict := false
			prev := map[string]*GoFile{}
			for _, tg := range tags {
				s := runs[single[tg]]
				for path, gf := range s.files {
					if gf.Err != nil {
						continue
					}
					if exp[path] == nil {
						exp[path] = map[string]string{}
						expImp[path] = map[string]string{}
					}
					expPkg[path] = gf.Pkg
					for k, txt := range gf.Decls {
						if old, ok := exp[path][k]; ok && old != txt {
							conflict = true
							add("U", "singletons-disagree"+diffClass(old, txt, gf, prev[path]), fmt.Sprintf("declaration %q in %s has different code depending on which file is the argument: %s", k, path, lineDiff(old, txt)))
						}
						exp[path][k] = txt
					}
					for ip, nm := range gf.Imports {
						expImp[path][ip] = nm
					}
					prev[path] = gf
				}
			}
			if !conflict {
				for _, path := range sortedKeys2(exp, run.files) {
					e, okE := exp[path]
					g, okG := run.files[path]
					if okE != okG {
						add("U", "file-set", fmt.Sprintf("output %q: expected from singletons=%v, produced by the history=%v", path, okE, okG))
						continue
					}
					if g.Err != nil {
						add("U", "history-output-unparsable", fmt.Sprintf("output %q does not parse as Go although the singleton outputs do: %v", path, g.Err))
						continue
					}
					var missing, extra, diff []string
					for k, txt := range e {
						gt, ok := g.Decls[k]
						if !ok {
							missing = append(missing, k)
						} else if gt != txt {
							diff = append(diff, k)
						}
					}
					for k := range g.Decls {
						if _, ok := e[k]; !ok {
							extra = append(extra, k)
						}
					}
					sort.Strings(missing)
					sort.Strings(extra)
					sort.Strings(diff)
					if len(extra) > 0 {
						w := "extra-decl" + unmarshalerOnly(extra)
						if dupSuffix.MatchString(extra[0]) {
							w = "extra-decl:dup-suffix"
						}
						if w == "extra-decl" {
							w += derivedOnly(extra)
						}
						add("U", w, fmt.Sprintf("output %q declares %s that no singleton run declares", path, fmtKeys(extra, 6)))
					}
					if len(missing) > 0 {
						mw := unmarshalerOnly(missing)
						if mw == "" {
							mw = derivedOnly(missing)
						}
						add("U", "missing-decl"+mw, fmt.Sprintf("output %q lacks %s declared by the singleton runs", path, fmtKeys(missing, 6)))
					}
					if len(diff) > 0 {
						add("U", "different-decl"+diffClass(e[diff[0]], g.Decls[diff[0]], g, nil), fmt.Sprintf("output %q: %s differ from the singleton runs, e.g. %s: %s", path, fmtKeys(diff, 6), diff[0], lineDiff(e[diff[0]], g.Decls[diff[0]])))
					}
					if g.Pkg != expPkg[path] {
						add("U", "package-clause", fmt.Sprintf("output %q: package %s, singletons say %s", path, g.Pkg, expPkg[path]))
					}
					for ip := range expImp[path] {
						if _, ok := g.Imports[ip]; !ok {
							add("U", "missing-import", fmt.Sprintf("output %q lacks import %q", path, ip))
						}
					}
					for ip := range g.Imports {
						if _, ok := expImp[path][ip]; !ok {
							add("U", "extra-import", fmt.Sprintf("output %q has import %q that no singleton run has", path, ip))
						}
					}
				}
			}
		}
		// ---- every file: no duplicate declaration keys
		for path, g := range run.files {
			if g.Err == nil && len(g.Dups) > 0 {
				add("U", "duplicate-decl", fmt.Sprintf("output %q declares %v more than once", path, g.Dups))
			}
		}
		// ---- R: no output without declarations (a file written for a mapping whose schema took no part in the run:
		// a stray stub today, a clobbered file tomorrow)
		reached := map[string]bool{}
		var visit func(tg string)
		visit = func(tg string) {
			if reached[tg] {
				return
			}
			reached[tg] = true
			for _, o := range meta.RefsTo[tg] {
				visit(o)
			}
		}
		for _, tg := range tags {
			visit(tg)
		}
		mappedHere := map[string]bool{}
		for _, f := range meta.Files {
			if reached[f.Tag] {
				mappedHere[f.OutAbs] = true
			}
		}
		for path, g := range run.files {
			if g.Err == nil && len(g.Decls) == 0 && path != "-" && !mappedHere[path] && meta.RefsTo != nil {
				add("R", "output-of-a-schema-that-took-no-part", fmt.Sprintf("output %q was written (package %s, no declarations) although no schema given to or referenced in this run maps to it", path, g.Pkg))
			}
		}
		// ---- R routing by markers
		for _, tg := range tags {
			f := fileByTag[tg]
			for _, mk := range f.Markers {
				var found []string
				for path, g := range run.files {
					if g.Err != nil {
						continue
					}
					if g.StructWithMarker(mk) != "" {
						found = append(found, path)
					}
				}
				sort.Strings(found)
				switch {
				case f.OutAbs == "":
					if len(found) > 0 {
						add("R", "emitted-though-mapped-nowhere", fmt.Sprintf("%s emitted into %v although its id has a mapping without output", mk, found))
					}
				case len(found) == 0:
					add("R", "marker-missing", fmt.Sprintf("no emitted struct carries %s (schema %s)", mk, tg))
				case len(found) > 1:
					cls := "marker-in-several-files"
					if meta.CrossPkgAnyOf {
						cls += ":crosspackage-anyOf-ref"
					}
					add("R", cls, fmt.Sprintf("%s emitted into %v", mk, found))
				case found[0] != f.OutAbs:
					add("R", "wrong-file", fmt.Sprintf("%s emitted into %q, mapping says %q", mk, found[0], f.OutAbs))
				default:
					g := run.files[found[0]]
					want := f.PkgPath[strings.LastIndex(f.PkgPath, "/")+1:]
					if g.Pkg != want {
						add("R", "wrong-package", fmt.Sprintf("%s is in package %s, mapping says %s", mk, g.Pkg, want))
					}
				}
			}
		}
		// ---- X cross-package links
		declared := map[string]map[string]bool{} // pkg base -> type names
		for _, g := range run.files {
			if g.Err != nil {
				continue
			}
			if declared[g.Pkg] == nil {
				declared[g.Pkg] = map[string]bool{}
			}
			for k := range g.Decls {
				if strings.HasPrefix(k, "type ") {
					declared[g.Pkg][strings.TrimPrefix(k, "type ")] = true
				}
			}
		}
		for path, g := range run.files {
			if g.Err != nil {
				continue
			}
			q, err := QualifiedRefs(run.raw[path])
			if err != nil {
				continue
			}
			for ident, names := range q {
				pkgPath, known := meta.Pkgs[ident]
				if !known {
					continue
				}
				if nm, ok := g.Imports[pkgPath]; !ok || nm != ident {
					add("X", "qualifier-without-import", fmt.Sprintf("output %q uses %s.%s but does not import %q", path, ident, names[0], pkgPath))
				}
				if ident == g.Pkg {
					add("X", "self-qualified", fmt.Sprintf("output %q qualifies %s.%s with its own package", path, ident, names[0]))
				}
				for _, nme := range names {
					if !declared[ident][nme] {
						add("X", "dangling-qualified-type", fmt.Sprintf("output %q uses %s.%s but no emitted file of package %s declares it", path, ident, nme, ident))
					}
				}
			}
			for ip, nm := range g.Imports {
				if _, mapped := meta.Pkgs[nm]; mapped && meta.Pkgs[nm] == ip {
					if _, used := q[nm]; !used {
						cls := "unused-package-import"
						if meta.CrossPkgCombo {
							cls += ":crosspackage-combinator-ref"
						}
						add("X", cls, fmt.Sprintf("output %q imports %q but never uses it (does not compile)", path, ip))
					}
				}
			}
		}
	}
	return dedupe(ds)
}

func dedupe(ds []Discrepancy) []Discrepancy {
	seen := map[string]bool{}
	var out []Discrepancy
	for _, d := range ds {
		if !seen[d.Sig] {
			seen[d.Sig] = true
			out = append(out, d)
		}
	}
	return out
}

func sortedKeys2(a map[string]map[string]string, b map[string]*GoFile) []string {
	seen := map[string]bool{}
	var ks []string
	for k := range a {
		if !seen[k] {
			seen[k] = true
			ks = append(ks, k)
		}
	}
	for k := range b {
		if !seen[k] {
			seen[k] = true
			ks = append(ks, k)
		}
	}
	sort.Strings(ks)
	return ks
}

func (p c20) Nontrivial(c *Case, outs []*Out) bool {
	var meta c20Meta
	_ = json.Unmarshal(c.Meta, &meta)
	if len(meta.Files) < 2 || len(meta.Spell) == 0 {
		return false
	}
	for _, tg := range meta.RunTags {
		if len(tg) >= 2 {
			return true
		}
	}
	return false
}

// diffClass classifies how two texts of one declaration differ: only in
// pointer placement, or by naming a type that the file it comes from never
// declares (a declaration that was still being built when it was referenced).
var aliasDecl = regexp.MustCompile(`(?m)^type [\p{L}\p{N}_]+ = [\p{L}\p{N}_.]+$`)

func diffClass(a, b string, fa, fb *GoFile) string {
	if strings.ReplaceAll(a, "*", "") == strings.ReplaceAll(b, "*", "") {
		return ":pointer-placement"
	}
	if aliasDecl.MatchString(a) != aliasDecl.MatchString(b) && (strings.Contains(a, "struct {") || strings.Contains(b, "struct {")) {
		// an alias of an existing copy in one history, a fresh struct copy in the other
		if crossPkgComboWorld {
			return ":alias-vs-copy:crosspackage-combinator-ref"
		}
		return ":alias-vs-copy"
	}
	if replaceTypeIdents(a) == replaceTypeIdents(b) {
		// the two texts differ only in which (generated) type names they mention
		la, lb := strings.Split(a, "\n"), strings.Split(b, "\n")
		for i := 0; i < len(la) && i < len(lb); i++ {
			if la[i] != lb[i] && (mentionsUnresolved(la[i], fb) || mentionsUnresolved(lb[i], fa) || mentionsUnresolved(la[i], fa) || mentionsUnresolved(lb[i], fb)) {
				return ":dangling-in-progress-type"
			}
		}
		// ... and if every name that differs is a DERIVED one (named after the property path that reached an inline or
		// per-branch type first), say so
		ia, ib := typeIdents(a), typeIdents(b)
		derived := len(ia) == len(ib)
		for i := 0; derived && i < len(ia); i++ {
			if ia[i] != ib[i] && !(derivedName.MatchString(ia[i]) && derivedName.MatchString(ib[i])) {
				derived = false
			}
		}
		if derived && multiCompositionWorld {
			return ":type-name-only:derived-type-name:multi-composition"
		}
		return ":type-name-only"
	}
	return ""
}

// derivedName: a type name that contains a property-derived segment (T2P3, T0R12: the generator's property names
// are t<file>p<n> / t<file>r<n>) - the name of an inline or per-branch type, built from the path that reached it.
var derivedName = regexp.MustCompile(`T[0-9]+[PR][0-9]+`)

// derivedOnly: all listed declarations belong to types with derived names, in a world where a merged target can be
// reached by several compositions.
func derivedOnly(keys []string) string {
	if !multiCompositionWorld {
		return ""
	}
	for _, k := range keys {
		// type X, func (*X) M, const X_Value, var enumValues_X: the declared name must hold a derived segment
		if !derivedName.MatchString(k) {
			return ""
		}
	}
	return ":derived-type-name:multi-composition"
}

// multiCompositionWorld is set by Eval for the case being judged.
var multiCompositionWorld bool

// typeIdents: the identifiers of a text that start with an upper-case letter (exported Go names: the generated type
// names among them). Letters are Unicode letters - definition names may hold U+0130 and the like (the first version
// used \b[A-Z][A-Za-z0-9_]*\b, cut such names in two, and so failed to recognise a known finding in the thorough
// tier: a false alarm, corrected here).
func scanIdents(s string, fn func(start, end int, upper bool)) {
	start := -1
	isID := func(r rune) bool { return r == '_' || unicode.IsLetter(r) || unicode.IsDigit(r) }
	for i, r := range s {
		if isID(r) {
			if start < 0 {
				start = i
			}
			continue
		}
		if start >= 0 {
			first, _ := utf8.DecodeRuneInString(s[start:])
			fn(start, i, unicode.IsUpper(first))
			start = -1
		}
	}
	if start >= 0 {
		first, _ := utf8.DecodeRuneInString(s[start:])
		fn(start, len(s), unicode.IsUpper(first))
	}
}

func typeIdents(s string) []string {
	var out []string
	scanIdents(s, func(a, b int, up bool) {
		if up {
			out = append(out, s[a:b])
		}
	})
	return out
}

func replaceTypeIdents(s string) string {
	var sb strings.Builder
	last := 0
	scanIdents(s, func(a, b int, up bool) {
		if up {
			sb.WriteString(s[last:a])
			sb.WriteString("T")
			last = b
		}
	})
	sb.WriteString(s[last:])
	return sb.String()
}

func mentionsUnresolved(line string, f *GoFile) bool {
	if f == nil {
		return false
	}
	for _, id := range f.Unresolved {
		if id[0] >= 'A' && id[0] <= 'Z' && regexp.MustCompile(`\b`+regexp.QuoteMeta(id)+`\b`).MatchString(line) {
			return true
		}
	}
	return false
}

func unusedDiffClass(a, b string, fa, fb *GoFile) string {
	la, lb := strings.Split(a, "\n"), strings.Split(b, "\n")
	mentions := func(line string, f *GoFile) bool {
		if f == nil {
			return false
		}
		for _, id := range f.Unresolved {
			if id[0] >= 'A' && id[0] <= 'Z' && regexp.MustCompile(`\b`+regexp.QuoteMeta(id)+`\b`).MatchString(line) {
				return true
			}
		}
		return false
	}
	for i := 0; i < len(la) && i < len(lb); i++ {
		if la[i] != lb[i] && (mentions(la[i], fb) || mentions(lb[i], fa) || mentions(la[i], fa) || mentions(lb[i], fb)) {
			return ":dangling-in-progress-type"
		}
	}
	return ""
}

// hasCrossFileCycle: do the file-level references of the world form a cycle?
func hasCrossFileCycle(w *World) bool {
	adj := map[string][]string{}
	for _, f := range w.Files {
		for _, r := range f.Refs {
			if !r.LocalOnly && r.ToTag != f.Tag {
				adj[f.Tag] = append(adj[f.Tag], r.ToTag)
			}
		}
	}
	state := map[string]int{}
	var dfs func(n string) bool
	dfs = func(n string) bool {
		state[n] = 1
		for _, m := range adj[n] {
			if state[m] == 1 || (state[m] == 0 && dfs(m)) {
				return true
			}
		}
		state[n] = 2
		return false
	}
	for _, f := range w.Files {
		if state[f.Tag] == 0 && dfs(f.Tag) {
			return true
		}
	}
	return false
}

// lineDiff shows the differing lines of two texts.
func lineDiff(a, b string) string {
	la, lb := strings.Split(a, "\n"), strings.Split(b, "\n")
	var out []string
	for i := 0; i < len(la) || i < len(lb); i++ {
		var x, y string
		if i < len(la) {
			x = la[i]
		}
		if i < len(lb) {
			y = lb[i]
		}
		if x != y {
			out = append(out, fmt.Sprintf("line %d: %q vs %q", i+1, strings.TrimSpace(x), strings.TrimSpace(y)))
			if len(out) >= 4 {
				break
			}
		}
	}
	return strings.Join(out, "; ")
}

var unmarshalerKey = regexp.MustCompile(`^func \(\*?[\p{L}\p{N}_]+\) Unmarshal(JSON|YAML)$`)

// unmarshalerOnly: the listed declarations are all generated unmarshal methods.
func unmarshalerOnly(keys []string) string {
	for _, k := range keys {
		if !unmarshalerKey.MatchString(k) {
			return ""
		}
	}
	if crossPkgComboWorld {
		return ":unmarshaler-only:crosspackage-combinator-ref"
	}
	return ":unmarshaler-only"
}

// crossPkgComboWorld is set by Eval for the case being judged (Eval is not reentrant).
var crossPkgComboWorld bool

// clash3World: order.json / customer.json / shipping.json in miniature. File 0's
// definition "Clash" is generated while the plain name already belongs to a
// finished declaration (its definition "AaT0" sorts first and pulls in file 1 with
// its own "Clash"), and while in flight it follows a $ref into file 2, which has a
// third "Clash". Every history must declare each of the three exactly once.
func clash3World(t *rapid.T) *World {
	str := Obj{{"type", "string"}}
	mk := func(tag, def string) KV { return KV{"mk_" + tag + "_" + def, str} }
	legacy := rapid.Bool().Draw(t, "c3legacy")
	dk, frag := "$defs", "#/$defs/"
	if legacy {
		dk, frag = "definitions", "#/definitions/"
	}
	f1 := &SFile{Tag: "t1", Base: "t1f.json", ID: "https://example.com/t1", RootObj: true, Defs: []string{"Clash", "PeT1"}}
	f1.Doc = Obj{{"$id", f1.ID}, {"type", "object"}, {"properties", Obj{{"mk_t1", str}, {"t1home", Obj{{"$ref", frag + "Clash"}}}, {"t1person", Obj{{"$ref", frag + "PeT1"}}}}},
		{dk, Obj{{"Clash", Obj{{"type", "object"}, {"properties", Obj{mk("t1", "Clash"), {"t1city", str}}}, {"required", []any{"t1city"}}}},
			{"PeT1", Obj{{"type", "object"}, {"properties", Obj{mk("t1", "PeT1"), {"t1name", str}}}}}}}}
	f2 := &SFile{Tag: "t2", Base: "t2f.json", ID: "https://example.com/t2", RootObj: true, Defs: []string{"Clash", "CaT2"}}
	f2.Doc = Obj{{"$id", f2.ID}, {"type", "object"}, {"properties", Obj{{"mk_t2", str}, {"t2depot", Obj{{"$ref", frag + "Clash"}}}, {"t2carrier", Obj{{"$ref", frag + "CaT2"}}}}},
		{dk, Obj{{"Clash", Obj{{"type", "object"}, {"properties", Obj{mk("t2", "Clash"), {"t2dock", Obj{{"type", "integer"}}}}}, {"required", []any{"t2dock"}}}},
			{"CaT2", Obj{{"type", "object"}, {"properties", Obj{mk("t2", "CaT2"), {"t2code", str}}}}}}}}
	f0 := &SFile{Tag: "t0", Base: "t0f.json", ID: "https://example.com/t0", RootObj: true, Defs: []string{"AaT0", "Clash"}}
	f0.Doc = Obj{{"$id", f0.ID}, {"type", "object"}, {"properties", Obj{{"mk_t0", str}, {"t0account", Obj{{"$ref", frag + "AaT0"}}}, {"t0billing", Obj{{"$ref", frag + "Clash"}}}}},
		{dk, Obj{{"AaT0", Obj{{"type", "object"}, {"properties", Obj{mk("t0", "AaT0"), {"t0owner", Obj{{"$ref", "t1f.json" + frag + "PeT1"}}}}}}},
			{"Clash", Obj{{"type", "object"}, {"properties", Obj{mk("t0", "Clash"), {"t0street", str}, {"t0carrier", Obj{{"$ref", "t2f.json" + frag + "CaT2"}}}}}, {"required", []any{"t0street"}}}}}}}
	f0.Refs = []RefUse{{FromTag: "t0", FromDef: "AaT0", Prop: "t0owner", Ref: "t1f.json" + frag + "PeT1", ToTag: "t1", ToDef: "PeT1", Spelling: "plain"},
		{FromTag: "t0", FromDef: "Clash", Prop: "t0carrier", Ref: "t2f.json" + frag + "CaT2", ToTag: "t2", ToDef: "CaT2", Spelling: "plain"}}
	w := &World{Root: "/w", Cwd: "/w", Files: []*SFile{f0, f1, f2}}
	w.Opts = Options{Package: "example.com/m/main", Output: rapid.SampledFrom([]string{"", "gen.go", "out/gen.go"}).Draw(t, "c3out"),
		Extra: rapid.Bool().Draw(t, "c3e"), OnlyModels: rapid.IntRange(0, 3).Draw(t, "c3om") == 0, MinSized: rapid.Bool().Draw(t, "c3ms")}
	return w
}

// ---- fixed battery worlds (shard 0, before the seeded search) -----------------------------

// c20BatteryWorlds: small hand-built worlds for the link shapes that random worlds hit
// only now and then: (1) two referrers in two packages share one declaration of a third
// package; (2) two ids share one file+package and a third file refers into the second;
// (3) two ids in one output with --schema-root-type each; (4) same-basename packages with
// a definition called Shared in each; (5) a shared package ending in /v2 next to the mapstructure/v2 import; (6) two
// documents under one $id; plus the clash3 world. Every ordering of every
// non-empty subset of the files is run.
func c20BatteryWorlds() []*World {
	str := Obj{{"type", "string"}}
	obj := func(props Obj, defs Obj, id string) Obj {
		d := Obj{{"$id", id}, {"type", "object"}, {"properties", props}}
		if len(defs) > 0 {
			d = append(d, KV{"$defs", defs})
		}
		return d
	}
	mkFile := func(tag string, pkg int, doc func(f *SFile) Obj, defs []string, refs []RefUse) *SFile {
		f := &SFile{Tag: tag, Base: tag + "f.json", ID: "https://example.com/" + tag, Pkg: pkg, RootObj: true, Defs: defs, Refs: refs}
		f.Doc = doc(f)
		return f
	}
	def := func(tag, name string, extra ...KV) KV {
		return KV{name, Obj{{"type", "object"}, {"properties", append(Obj{{"mk_" + tag + "_" + name, str}, {tag + "v", Obj{{"type", "integer"}}}}, extra...)}}}
	}
	var ws []*World
	// (1) hub: t0 (main) and t1 (pk1) both refer to t2 (pk2) #T2Da and to its root
	{
		t2 := mkFile("t2", 2, func(f *SFile) Obj { return obj(Obj{{"mk_t2", str}}, Obj{def("t2", "T2Da")}, f.ID) }, []string{"T2Da"}, nil)
		t0 := mkFile("t0", 0, func(f *SFile) Obj {
			return obj(Obj{{"mk_t0", str}, {"t0r1", Obj{{"$ref", "t2f.json#/$defs/T2Da"}}}, {"t0r2", Obj{{"$ref", "t2f.json"}}}}, nil, f.ID)
		}, nil, []RefUse{{FromTag: "t0", Prop: "t0r1", Ref: "t2f.json#/$defs/T2Da", ToTag: "t2", ToDef: "T2Da"}})
		t1 := mkFile("t1", 1, func(f *SFile) Obj {
			return obj(Obj{{"mk_t1", str}, {"t1r1", Obj{{"$ref", "t2f.json#/$defs/T2Da"}}}, {"t1r2", Obj{{"type", "array"}, {"items", Obj{{"$ref", "t2f.json"}}}}}}, nil, f.ID)
		}, nil, []RefUse{{FromTag: "t1", Prop: "t1r1", Ref: "t2f.json#/$defs/T2Da", ToTag: "t2", ToDef: "T2Da"}})
		w := &World{Root: "/w", Cwd: "/w", Files: []*SFile{t0, t1, t2}, Opts: Options{Package: "example.com/m/main", Output: "out/main/gen.go", Extra: true,
			SchemaPkg: []Pair{{t1.ID, "example.com/m/pk1"}, {t2.ID, "example.com/m/pk2"}}, SchemaOut: []Pair{{t1.ID, "out/pk1/gen.go"}, {t2.ID, "out/pk2/gen.go"}}}}
		ws = append(ws, w)
	}
	// (2) t0 and t1 share file+package (pk1); t2 (main) refers into t1
	{
		t0 := mkFile("t0", 1, func(f *SFile) Obj { return obj(Obj{{"mk_t0", str}}, Obj{def("t0", "T0Da")}, f.ID) }, []string{"T0Da"}, nil)
		t1 := mkFile("t1", 1, func(f *SFile) Obj { return obj(Obj{{"mk_t1", str}}, Obj{def("t1", "T1Da")}, f.ID) }, []string{"T1Da"}, nil)
		t2 := mkFile("t2", 0, func(f *SFile) Obj {
			return obj(Obj{{"mk_t2", str}, {"t2r1", Obj{{"$ref", "t1f.json#/$defs/T1Da"}}}, {"t2r2", Obj{{"$ref", "t1f.json"}}}}, nil, f.ID)
		}, nil, []RefUse{{FromTag: "t2", Prop: "t2r1", Ref: "t1f.json#/$defs/T1Da", ToTag: "t1", ToDef: "T1Da"}})
		w := &World{Root: "/w", Cwd: "/w", Files: []*SFile{t0, t1, t2}, Opts: Options{Package: "example.com/m/main", Output: "out/main/gen.go",
			SchemaPkg: []Pair{{t0.ID, "example.com/m/pk1"}, {t1.ID, "example.com/m/pk1"}}, SchemaOut: []Pair{{t0.ID, "out/pk1/gen.go"}, {t1.ID, "out/pk1/gen.go"}}}}
		ws = append(ws, w)
	}
	// (3) two ids in the default output, each with its own --schema-root-type (and output)
	{
		t0 := mkFile("t0", 0, func(f *SFile) Obj {
			return obj(Obj{{"mk_t0", str}, {"t0r1", Obj{{"$ref", "t1f.json"}}}}, Obj{def("t0", "T0Da")}, f.ID)
		}, []string{"T0Da"},
			[]RefUse{{FromTag: "t0", Prop: "t0r1", Ref: "t1f.json", ToTag: "t1"}})
		t1 := mkFile("t1", 0, func(f *SFile) Obj { return obj(Obj{{"mk_t1", str}}, Obj{def("t1", "T1Da")}, f.ID) }, []string{"T1Da"}, nil)
		t2 := mkFile("t2", 0, func(f *SFile) Obj { return obj(Obj{{"mk_t2", str}}, nil, f.ID) }, nil, nil)
		w := &World{Root: "/w", Cwd: "/w", Files: []*SFile{t0, t1, t2}, Opts: Options{Package: "example.com/m/main", Output: "gen.go",
			SchemaRoot: []Pair{{t0.ID, "AlphaConfig"}, {t1.ID, "BetaConfig"}}, SchemaOut: []Pair{{t0.ID, "gen.go"}, {t1.ID, "gen.go"}}}}
		ws = append(ws, w)
	}
	// (4) same-basename packages, a definition called Shared (with an anyOf over helpers) in each
	{
		mk := func(tag string, pkg int) *SFile {
			return mkFile(tag, pkg, func(f *SFile) Obj {
				cb := Obj{{"type", "object"}, {"properties", Obj{{"cb_" + tag + "_sa", str}}}}
				return obj(Obj{{"mk_" + tag, str}, {tag + "r1", Obj{{"$ref", "#/$defs/Shared"}}}},
					Obj{def(tag, "SharedA"), def(tag, "SharedB"),
						def(tag, "Shared", KV{"sharedany", Obj{{"anyOf", []any{Obj{{"$ref", "#/$defs/SharedA"}}, Obj{{"$ref", "#/$defs/SharedB"}}, cb}}}},
							KV{"sharedkind", Obj{{"type", "string"}, {"enum", []any{"active", "inactive"}}}})}, f.ID)
			}, []string{"SharedA", "SharedB", "Shared"}, nil)
		}
		t0, t1 := mk("t0", 1), mk("t1", 2)
		w := &World{Root: "/w", Cwd: "/w", Files: []*SFile{t0, t1}, Opts: Options{Package: "example.com/m/main/v1", Output: "out/main/gen.go", Caps: []string{"ID", "URL"},
			SchemaPkg: []Pair{{t0.ID, "example.com/m/pk1/v1"}, {t1.ID, "example.com/m/pk2/v1"}}, SchemaOut: []Pair{{t0.ID, "out/pk1/gen.go"}, {t1.ID, "out/pk2/gen.go"}}}}
		ws = append(ws, w)
	}
	// (5) the shared package ends in /v2; one referrer also carries a map with typed values (its file imports
	// github.com/go-viper/mapstructure/v2, whose last path element is v2 as well, before it meets the reference)
	{
		t2 := mkFile("t2", 2, func(f *SFile) Obj { return obj(Obj{{"mk_t2", str}}, Obj{def("t2", "T2Da")}, f.ID) }, []string{"T2Da"}, nil)
		t0 := mkFile("t0", 0, func(f *SFile) Obj {
			return obj(Obj{{"mk_t0", str}, {"t0r1", Obj{{"$ref", "t2f.json#/$defs/T2Da"}}}, {"t0labels", Obj{{"$ref", "#/$defs/AaLabels"}}}},
				Obj{{"AaLabels", Obj{{"type", "object"}, {"properties", Obj{{"owner", str}}}, {"additionalProperties", str}}}}, f.ID)
		}, nil, []RefUse{{FromTag: "t0", Prop: "t0r1", Ref: "t2f.json#/$defs/T2Da", ToTag: "t2", ToDef: "T2Da"}})
		t1 := mkFile("t1", 1, func(f *SFile) Obj {
			return obj(Obj{{"mk_t1", str}, {"t1r1", Obj{{"$ref", "t2f.json#/$defs/T2Da"}}}}, nil, f.ID)
		}, nil, []RefUse{{FromTag: "t1", Prop: "t1r1", Ref: "t2f.json#/$defs/T2Da", ToTag: "t2", ToDef: "T2Da"}})
		w := &World{Root: "/w", Cwd: "/w", Files: []*SFile{t0, t1, t2}, Opts: Options{Package: "example.com/m/main", Output: "out/main/gen.go",
			SchemaPkg: []Pair{{t1.ID, "example.com/m/pk1"}, {t2.ID, "example.com/m/pk2/v2"}}, SchemaOut: []Pair{{t1.ID, "out/pk1/gen.go"}, {t2.ID, "out/pk2/gen.go"}}}}
		ws = append(ws, w)
	}
	// (6) two different documents carry one $id (and therefore one package and one output); a third refers into the second
	{
		t0 := mkFile("t0", 1, func(f *SFile) Obj { return obj(Obj{{"mk_t0", str}}, Obj{def("t0", "T0Da")}, f.ID) }, []string{"T0Da"}, nil)
		t1 := mkFile("t1", 1, func(f *SFile) Obj {
			return obj(Obj{{"mk_t1", str}}, Obj{def("t1", "T1Da"), def("t1", "T1Db")}, "https://example.com/t0")
		}, []string{"T1Da", "T1Db"}, nil)
		t1.ID = t0.ID
		t2 := mkFile("t2", 0, func(f *SFile) Obj {
			return obj(Obj{{"mk_t2", str}, {"t2r1", Obj{{"$ref", "t1f.json#/$defs/T1Da"}}}}, nil, f.ID)
		}, nil, []RefUse{{FromTag: "t2", Prop: "t2r1", Ref: "t1f.json#/$defs/T1Da", ToTag: "t1", ToDef: "T1Da"}})
		w := &World{Root: "/w", Cwd: "/w", Files: []*SFile{t0, t1, t2}, Opts: Options{Package: "example.com/m/main", Output: "out/main/gen.go",
			SchemaPkg: []Pair{{t0.ID, "example.com/m/pk1"}}, SchemaOut: []Pair{{t0.ID, "out/pk1/gen.go"}}}}
		w.Feat.SharedID = true
		ws = append(ws, w)
	}
	return ws
}

func (p c20) Batteries(env *Env) ([]*Case, [][]*Out) {
	var cs []*Case
	var os [][]*Out
	for _, w := range c20BatteryWorlds() {
		meta := buildC20Meta(w)
		c := &Case{Prop: "C20"}
		var outs []*Out
		run := func(idx []int) {
			var args, tags, sp []string
			for _, i := range idx {
				args = append(args, w.ArgFor(w.Files[i], "rel"))
				tags = append(tags, w.Files[i].Tag)
				sp = append(sp, "rel")
			}
			c.Runs = append(c.Runs, Run{Label: "battery history", Spec: w.Spec("", nil, args)})
			meta.RunTags = append(meta.RunTags, tags)
			meta.ArgSpell = append(meta.ArgSpell, sp)
			meta.RunArgs = append(meta.RunArgs, args)
			outs = append(outs, env.Exec(&c.Runs[len(c.Runs)-1].Spec))
		}
		n := len(w.Files)
		for i := 0; i < n; i++ {
			run([]int{i})
		}
		for _, h := range allHistories(n) {
			if len(h) > 1 {
				run(h)
			}
		}
		c.Meta, _ = json.Marshal(meta)
		cs = append(cs, c)
		os = append(os, outs)
	}
	env.Stats.Counters["battery_worlds"] += len(cs)
	return cs, os
}
