package sim

import (
	"bytes"
	"encoding/json"
	"fmt"
	"strconv"
	"strings"
)

// KV / Obj: JSON objects with an explicit key order (schema documents are
// generated, permuted and injected as values of this type).
type KV struct {
	K string
	V any
}
type Obj []KV

func (o Obj) Get(k string) (any, bool) {
	for _, kv := range o {
		if kv.K == k {
			return kv.V, true
		}
	}
	return nil, false
}

func (o Obj) Set(k string, v any) Obj {
	for i := range o {
		if o[i].K == k {
			o[i].V = v
			return o
		}
	}
	return append(o, KV{k, v})
}

func (o Obj) Del(k string) Obj {
	out := o[:0:0]
	for _, kv := range o {
		if kv.K != k {
			out = append(out, kv)
		}
	}
	return out
}

// MarshalJSON keeps key order (used for replay files).
func (o Obj) MarshalJSON() ([]byte, error) {
	return RenderJSON(o, nil), nil
}

// YAMLRawKey: a key with this prefix is written without quotes in YAML (so that it is an integer, boolean, float
// or null key there) and as the plain string in JSON.
const YAMLRawKey = "~yamlraw~"

// KeyOrder yields, for the i-th object met in document order with n keys, the
// order in which to emit the keys. nil = as stored.
type KeyOrder struct {
	Choices []int // Fisher-Yates choices consumed cyclically across all objects
	i       int
}

func (k *KeyOrder) perm(n int) []int {
	idx := make([]int, n)
	for i := range idx {
		idx[i] = i
	}
	if k == nil || len(k.Choices) == 0 {
		return idx
	}
	for i := 0; i < n-1; i++ {
		c := k.Choices[k.i%len(k.Choices)]
		k.i++
		if c < 0 {
			c = -c
		}
		j := i + c%(n-i)
		idx[i], idx[j] = idx[j], idx[i]
	}
	return idx
}

func RenderJSON(v any, ko *KeyOrder) []byte {
	var b bytes.Buffer
	if ko != nil {
		ko = &KeyOrder{Choices: ko.Choices}
	}
	renderJSON(&b, v, ko, 0, true)
	return b.Bytes()
}

func jstr(s string) string {
	b, _ := json.Marshal(s)
	return string(b)
}

func renderJSON(b *bytes.Buffer, v any, ko *KeyOrder, ind int, pretty bool) {
	nl := func(n int) {
		if pretty {
			b.WriteByte('\n')
			b.WriteString(strings.Repeat(" ", n))
		}
	}
	switch x := v.(type) {
	case nil:
		b.WriteString("null")
	case bool:
		b.WriteString(strconv.FormatBool(x))
	case int:
		b.WriteString(strconv.Itoa(x))
	case int64:
		b.WriteString(strconv.FormatInt(x, 10))
	case float64:
		b.WriteString(strconv.FormatFloat(x, 'g', -1, 64))
	case string:
		b.WriteString(jstr(x))
	case RawJSON:
		b.WriteString(string(x))
	case []any:
		if len(x) == 0 {
			b.WriteString("[]")
			return
		}
		b.WriteByte('[')
		for i, e := range x {
			if i > 0 {
				b.WriteByte(',')
			}
			nl(ind + 1)
			renderJSON(b, e, ko, ind+1, pretty)
		}
		nl(ind)
		b.WriteByte(']')
	case Obj:
		if len(x) == 0 {
			b.WriteString("{}")
			return
		}
		b.WriteByte('{')
		for i, j := range ko.perm(len(x)) {
			if i > 0 {
				b.WriteByte(',')
			}
			nl(ind + 1)
			b.WriteString(jstr(x[j].K))
			b.WriteByte(':')
			if pretty {
				b.WriteByte(' ')
			}
			renderJSON(b, x[j].V, ko, ind+1, pretty)
		}
		nl(ind)
		b.WriteByte('}')
	default:
		panic(fmt.Sprintf("renderJSON: unsupported %T", v))
	}
}

// RawJSON is spliced verbatim into JSON output (used for malformed-content
// defects); in YAML it is emitted as a flow scalar.
type RawJSON string

// RenderYAMLCRLF is RenderYAML with multi-line strings as block scalars ("|-")
// and every line terminated by CRLF, as a Windows editor would save the file.
func RenderYAMLCRLF(v any, ko *KeyOrder) []byte {
	yamlBlockScalars = true
	b := RenderYAML(v, ko)
	yamlBlockScalars = false
	return bytes.ReplaceAll(b, []byte("\n"), []byte("\r\n"))
}

var yamlBlockScalars bool

// blockScalar renders s as a literal block scalar if it is a plain multi-line text.
func blockScalar(s string, ind int) (string, bool) {
	if !yamlBlockScalars || !strings.Contains(s, "\n") || strings.HasSuffix(s, "\n") || strings.ContainsAny(s, "\r\t") {
		return "", false
	}
	lines := strings.Split(s, "\n")
	pad := strings.Repeat("  ", ind+1)
	out := "|-\n"
	for _, l := range lines {
		if l == "" || l[0] == ' ' {
			return "", false
		}
		out += pad + l + "\n"
	}
	return out, true
}

// RenderYAML emits block-style YAML (strings double quoted, so that every JSON
// string is a valid YAML scalar).
func RenderYAML(v any, ko *KeyOrder) []byte {
	var b bytes.Buffer
	if ko != nil {
		ko = &KeyOrder{Choices: ko.Choices}
	}
	renderYAML(&b, v, ko, 0, false)
	if b.Len() == 0 || b.Bytes()[b.Len()-1] != '\n' {
		b.WriteByte('\n')
	}
	return b.Bytes()
}

func yamlScalar(v any) (string, bool) {
	switch x := v.(type) {
	case nil:
		return "null", true
	case bool:
		return strconv.FormatBool(x), true
	case int:
		return strconv.Itoa(x), true
	case int64:
		return strconv.FormatInt(x, 10), true
	case float64:
		s := strconv.FormatFloat(x, 'g', -1, 64)
		return s, true
	case string:
		return jstr(x), true
	case RawJSON:
		return string(x), true
	case []any:
		if len(x) == 0 {
			return "[]", true
		}
	case Obj:
		if len(x) == 0 {
			return "{}", true
		}
	}
	return "", false
}

// yamlKey: keys that look like plain identifiers are left unquoted (more
// natural YAML, and exercises the plain-scalar path); others are quoted.
func yamlKey(k string) string {
	if strings.HasPrefix(k, YAMLRawKey) {
		return strings.TrimPrefix(k, YAMLRawKey) // 1: / true: / null: - a non-string key in YAML
	}
	if k == "" {
		return `""`
	}
	plain := true
	for i, r := range k {
		ok := r == '_' || r == '$' && i == 0 || (r >= 'a' && r <= 'z') || (r >= 'A' && r <= 'Z') || (r >= '0' && r <= '9' && i > 0)
		if !ok {
			plain = false
			break
		}
	}
	switch strings.ToLower(k) {
	case "true", "false", "null", "yes", "no", "on", "off", "y", "n", "~":
		plain = false
	}
	if plain {
		return k
	}
	return jstr(k)
}

func renderYAML(b *bytes.Buffer, v any, ko *KeyOrder, ind int, inline bool) {
	if s, ok := yamlScalar(v); ok {
		b.WriteString(s)
		b.WriteByte('\n')
		return
	}
	pad := strings.Repeat("  ", ind)
	switch x := v.(type) {
	case []any:
		for i, e := range x {
			if i > 0 || !inline {
				b.WriteString(pad)
			}
			b.WriteString("- ")
			if s, ok := yamlScalar(e); ok {
				b.WriteString(s)
				b.WriteByte('\n')
			} else {
				renderYAML(b, e, ko, ind+1, true)
			}
		}
	case Obj:
		for i, j := range ko.perm(len(x)) {
			if i > 0 || !inline {
				b.WriteString(pad)
			}
			b.WriteString(yamlKey(x[j].K))
			b.WriteByte(':')
			if str, isStr := x[j].V.(string); isStr {
				if bs, ok := blockScalar(str, ind); ok {
					b.WriteByte(' ')
					b.WriteString(bs)
					continue
				}
			}
			if s, ok := yamlScalar(x[j].V); ok {
				b.WriteByte(' ')
				b.WriteString(s)
				b.WriteByte('\n')
			} else {
				b.WriteByte('\n')
				// sequences under a key are indented one level like maps
				renderYAML(b, x[j].V, ko, ind+1, false)
			}
		}
	default:
		panic(fmt.Sprintf("renderYAML: unsupported %T", v))
	}
}

// ParseOrdered parses JSON text into Obj/[]any/... keeping key order.
func ParseOrdered(data []byte) (any, error) {
	dec := json.NewDecoder(bytes.NewReader(data))
	dec.UseNumber()
	v, err := parseOrdered(dec)
	if err != nil {
		return nil, err
	}
	return v, nil
}

func parseOrdered(dec *json.Decoder) (any, error) {
	tok, err := dec.Token()
	if err != nil {
		return nil, err
	}
	switch t := tok.(type) {
	case json.Delim:
		switch t {
		case '{':
			o := Obj{}
			for dec.More() {
				kt, err := dec.Token()
				if err != nil {
					return nil, err
				}
				v, err := parseOrdered(dec)
				if err != nil {
					return nil, err
				}
				o = append(o, KV{kt.(string), v})
			}
			_, err := dec.Token()
			return o, err
		case '[':
			a := []any{}
			for dec.More() {
				v, err := parseOrdered(dec)
				if err != nil {
					return nil, err
				}
				a = append(a, v)
			}
			_, err := dec.Token()
			return a, err
		}
	case json.Number:
		if i, err := t.Int64(); err == nil {
			return int(i), nil
		}
		f, _ := t.Float64()
		return f, nil
	default:
		return tok, nil
	}
	return nil, fmt.Errorf("unexpected token %v", tok)
}

// UnmarshalJSON for Obj keeps key order (replay files).
func (o *Obj) UnmarshalJSON(data []byte) error {
	v, err := ParseOrdered(data)
	if err != nil {
		return err
	}
	if v == nil {
		*o = nil
		return nil
	}
	x, ok := v.(Obj)
	if !ok {
		return fmt.Errorf("not an object")
	}
	*o = x
	return nil
}
