// Package sim is the orchestrator half of the simulator: it builds the
// instrumented program from the repository's working tree, draws worlds,
// schedules and fault sequences with rapid, executes simulated runs (one OS
// process per run) and evaluates the per-property oracles.
package sim

import (
	"bytes"
	"encoding/json"
	"fmt"
	"os"
	"os/exec"
	"path/filepath"
)

// Bins are the programs built for one check invocation.
type Bins struct {
	Dir    string          // private directory (removed by Cleanup)
	Sim    string          // instrumented binary
	Real   string          // untouched binary built from the same sources
	Report json.RawMessage // instrumenter report
	Owned  bool
}

// VerifDir is the root of the verification tree (parent of bin/).
func VerifDir() string {
	if d := os.Getenv("VERIF_DIR"); d != "" {
		return d
	}
	exe, err := os.Executable()
	if err == nil {
		d := filepath.Dir(filepath.Dir(exe))
		if _, err := os.Stat(filepath.Join(d, "sim", "simrt")); err == nil {
			return d
		}
	}
	return "/verif"
}

func RepoDir() string {
	if d := os.Getenv("VERIF_REPO"); d != "" {
		return d
	}
	return "/repo"
}

// Build copies + instruments + builds the repository's current working tree.
// Scratch space lives under $TMPDIR and is removed before returning; only the
// two binaries stay (in a private temp dir removed by Cleanup).
func Build() (*Bins, error) {
	if d := os.Getenv("VERIF_BINS"); d != "" { // shard processes reuse the parent's build
		b := &Bins{Dir: d, Sim: filepath.Join(d, "simbin"), Real: filepath.Join(d, "realbin")}
		b.Report, _ = os.ReadFile(filepath.Join(d, "instrument.json"))
		return b, nil
	}
	dir, err := os.MkdirTemp("", "verif-bins-")
	if err != nil {
		return nil, err
	}
	scratch, err := os.MkdirTemp("", "verif-scratch-")
	if err != nil {
		return nil, err
	}
	defer os.RemoveAll(scratch)
	v := VerifDir()
	cmd := exec.Command(filepath.Join(v, "bin", "instrument"),
		"-repo", RepoDir(), "-out", scratch, "-simrt", filepath.Join(v, "sim", "simrt"), "-bin", dir)
	var out bytes.Buffer
	cmd.Stdout, cmd.Stderr = &out, &out
	if err := cmd.Run(); err != nil {
		os.RemoveAll(dir)
		return nil, fmt.Errorf("instrumented build failed: %v\n%s", err, out.String())
	}
	b := &Bins{Dir: dir, Sim: filepath.Join(dir, "simbin"), Real: filepath.Join(dir, "realbin"), Owned: true}
	b.Report, _ = os.ReadFile(filepath.Join(dir, "instrument.json"))
	return b, nil
}

func (b *Bins) Cleanup() {
	if b != nil && b.Owned {
		os.RemoveAll(b.Dir)
	}
}
