package sim

import (
	"fmt"
	"path/filepath"
	"sort"
	"strings"

	"pgregory.net/rapid"

	"verifsim/simrt"
)

// ---- model -------------------------------------------------------------------

// SFile is one generated schema document.
type SFile struct {
	Tag  string   `json:"tag"`  // t0, t1, ...
	Dir  string   `json:"dir"`  // directory relative to the world root ("" = root)
	Base string   `json:"base"` // file name
	YAML bool     `json:"yaml,omitempty"`
	ID   string   `json:"id,omitempty"`
	Pkg  int      `json:"pkg"` // package group (0 = default package)
	Doc  Obj      `json:"doc"`
	Defs []string `json:"defs,omitempty"` // object definitions carrying a marker
	Refs []RefUse `json:"refs,omitempty"` // attributable refs (top-level properties of marker structs)
	// BothDefs: the document has "$defs" (the real definitions) AND a legacy
	// "definitions" block holding decoys under the same names; "#/$defs/X" must
	// keep denoting the real ones. Refs into such a file are spelled "#/$defs/".
	BothDefs bool `json:"both_defs,omitempty"`
	// URL: the document is not a file but is served by the virtual web at this URL
	URL string `json:"url,omitempty"`
	// ClashDef: the definition named like another definition's inline type (KF-C10-4 scope)
	ClashDef string `json:"clash_def,omitempty"`
	// AliasOf: this definition also exists under the name <def>Al = {"type":"object","$ref":"#/$defs/<def>"} (a typed
	// alias); other documents may refer to the alias and must get the type of the definition of THIS document
	AliasOf string `json:"alias_of,omitempty"`
	// CRLF (YAML only): saved with CRLF line ends and block scalars for multi-line text
	CRLF bool `json:"crlf,omitempty"`
	// RootObj: the root is {"type":"object", properties...} and carries marker mk_<tag>.
	RootObj bool `json:"root_obj"`
	// ArgVia: when the file is named on the command line it is named by this path (relative to the root) instead of
	// Rel() - through a symbolic link to its directory, say
	ArgVia string `json:"arg_via,omitempty"`
}

func (f *SFile) Rel() string { return filepath.Join(f.Dir, f.Base) }

// RefUse records a $ref whose resolution can be attributed through markers.
type RefUse struct {
	FromTag   string `json:"from"`                 // referring file
	FromDef   string `json:"from_def"`             // "" = root struct, else definition name
	Prop      string `json:"prop"`                 // JSON name of the property holding the ref
	Ref       string `json:"ref"`                  // the $ref string as written
	ToTag     string `json:"to"`                   // model target file
	ToDef     string `json:"to_def"`               // "" = root of that file
	ViaArray  bool   `json:"arr,omitempty"`        // property is array of ref
	Spelling  string `json:"spelling"`             // plain, dot, dotdot, abs, fileurl, noext, symlink, fragment
	LocalOnly bool   `json:"local,omitempty"`      // same-file fragment ref
	Combo     string `json:"combo,omitempty"`      // "allOf"/"anyOf": the ref is a branch next to a branch holding the cb_ marker
	CB        string `json:"cb,omitempty"`         // name of that cb_ marker property
	PureAlias bool   `json:"pure_alias,omitempty"` // the ref names a definition that is only {"$ref": ...}: untyped today
}

type Link struct {
	Path   string `json:"path"` // relative to root
	Target string `json:"target"`
}

type Pair struct{ K, V string }

type Options struct {
	Package     string   `json:"package,omitempty"`
	Output      string   `json:"output,omitempty"` // "" = flag not given (stdout)
	SchemaPkg   []Pair   `json:"schema_pkg,omitempty"`
	SchemaOut   []Pair   `json:"schema_out,omitempty"`
	SchemaRoot  []Pair   `json:"schema_root,omitempty"`
	Extra       bool     `json:"extra,omitempty"`
	OnlyModels  bool     `json:"only_models,omitempty"`
	MinSized    bool     `json:"min_sized,omitempty"`
	TitleNames  bool     `json:"title_names,omitempty"`
	Verbose     bool     `json:"verbose,omitempty"`
	Tags        []string `json:"tags,omitempty"`
	Caps        []string `json:"caps,omitempty"`
	ResolveExt  []string `json:"resolve_ext,omitempty"`
	YAMLExt     []string `json:"yaml_ext,omitempty"`
	RawTrailing []string `json:"raw,omitempty"` // extra raw argv elements (flag faults)
}

// Argv builds the command line: flags then file arguments.
func (o *Options) Argv(files []string) []string {
	var a []string
	if o.Package != "" {
		a = append(a, "-p", o.Package)
	}
	if o.Output != "" {
		a = append(a, "-o", o.Output)
	}
	for _, p := range o.SchemaPkg {
		a = append(a, "--schema-package="+p.K+"="+p.V)
	}
	for _, p := range o.SchemaOut {
		a = append(a, "--schema-output="+p.K+"="+p.V)
	}
	for _, p := range o.SchemaRoot {
		a = append(a, "--schema-root-type="+p.K+"="+p.V)
	}
	if o.Extra {
		a = append(a, "-e")
	}
	if o.OnlyModels {
		a = append(a, "--only-models")
	}
	if o.MinSized {
		a = append(a, "--min-sized-ints")
	}
	if o.TitleNames {
		a = append(a, "-t")
	}
	if o.Verbose {
		a = append(a, "-v")
	}
	if len(o.Tags) > 0 {
		a = append(a, "--tags="+strings.Join(o.Tags, ","))
	}
	for _, c := range o.Caps {
		a = append(a, "--capitalization", c)
	}
	for _, e := range o.ResolveExt {
		a = append(a, "--resolve-extension", e)
	}
	for _, e := range o.YAMLExt {
		a = append(a, "--yaml-extension", e)
	}
	a = append(a, o.RawTrailing...)
	a = append(a, files...)
	return a
}

type World struct {
	Root  string         `json:"root"`
	Cwd   string         `json:"cwd"` // absolute
	Files []*SFile       `json:"files"`
	Links []Link         `json:"links,omitempty"`
	Extra []simrt.Node   `json:"extra,omitempty"` // other pre-existing nodes (absolute paths)
	Web   []simrt.WebEnt `json:"web,omitempty"`
	Opts  Options        `json:"opts"`
	Feat  Feat           `json:"feat"`
}

func (w *World) File(tag string) *SFile {
	for _, f := range w.Files {
		if f.Tag == tag {
			return f
		}
	}
	return nil
}

// Render a schema file.
func (f *SFile) Bytes(ko *KeyOrder) []byte {
	if f.YAML && f.CRLF {
		return RenderYAMLCRLF(f.Doc, ko)
	}
	if f.YAML {
		return RenderYAML(f.Doc, ko)
	}
	return RenderJSON(f.Doc, ko)
}

// RootPH is the placeholder for the absolute world root inside documents and
// option values; it is substituted when the world is rendered at a prefix.
const RootPH = "@@ROOT@@"

func subst(b []byte, prefix, root string) []byte {
	return []byte(strings.ReplaceAll(string(b), RootPH, MapAbs(prefix, root, root)))
}

// MapAbs relocates an absolute path. A plain prefix is prepended to every path
// (the whole file system moves rigidly); "=<dir>" RENAMES the world root to <dir>
// (paths outside the root stay) - the schema directory gets another name as well as
// another place, which is only possible when the working directory is inside it.
func MapAbs(prefix, root, p string) string {
	if strings.HasPrefix(prefix, "=") {
		nr := prefix[1:]
		if p == root {
			return nr
		}
		if strings.HasPrefix(p, root+"/") {
			return nr + p[len(root):]
		}
		return p
	}
	return prefix + p
}

// UnmapAbs is the inverse of MapAbs (used to compare output names).
func UnmapAbs(prefix, root, p string) string {
	if strings.HasPrefix(prefix, "=") {
		nr := prefix[1:]
		if p == nr {
			return root
		}
		if strings.HasPrefix(p, nr+"/") {
			return root + p[len(nr):]
		}
		return p
	}
	return strings.TrimPrefix(p, prefix)
}

// FSNodes renders the world with every absolute path prefixed by prefix
// (relocation of the whole tree; "" = in place).
func (w *World) FSNodes(prefix string, ko *KeyOrder) []simrt.Node {
	var ns []simrt.Node
	ns = append(ns, simrt.Node{Path: MapAbs(prefix, w.Root, w.Root), Kind: "d"})
	for _, f := range w.Files {
		if f.URL != "" {
			continue
		}
		var k *KeyOrder
		if ko != nil {
			k = &KeyOrder{Choices: ko.Choices}
		}
		ns = append(ns, simrt.Node{Path: MapAbs(prefix, w.Root, filepath.Join(w.Root, f.Rel())), Kind: "f", Data: subst(f.Bytes(k), prefix, w.Root)})
	}
	for _, l := range w.Links {
		ns = append(ns, simrt.Node{Path: MapAbs(prefix, w.Root, filepath.Join(w.Root, l.Path)), Kind: "l", Target: l.Target})
	}
	for _, e := range w.Extra {
		n := e
		n.Path = MapAbs(prefix, w.Root, n.Path)
		ns = append(ns, n)
	}
	return ns
}

// DefaultMaxTicks bounds I/O steps + map-order events of one run (bounded
// liveness): ordinary runs need a few hundred to a few thousand.
const DefaultMaxTicks = 200000

// Spec renders a run of the CLI over the given file arguments.
func (w *World) Spec(prefix string, ko *KeyOrder, args []string) simrt.Spec {
	a := w.Opts.Argv(args)
	for i := range a {
		a[i] = strings.ReplaceAll(a[i], RootPH, MapAbs(prefix, w.Root, w.Root))
	}
	web := append([]simrt.WebEnt(nil), w.Web...)
	for _, f := range w.Files {
		if f.URL != "" {
			ct := "application/json"
			if f.YAML {
				ct = "application/yaml"
			}
			web = append(web, simrt.WebEnt{URL: f.URL, ContentType: ct, Body: subst(f.Bytes(ko), prefix, w.Root)})
		}
	}
	return simrt.Spec{Args: a, Cwd: MapAbs(prefix, w.Root, w.Cwd), FS: w.FSNodes(prefix, ko), Web: web, MaxTicks: DefaultMaxTicks}
}

// ArgFor spells file f as a command-line argument relative to cwd.
func (w *World) ArgFor(f *SFile, spelling string) string {
	abs := filepath.Join(w.Root, f.Rel())
	if f.ArgVia != "" {
		abs = filepath.Join(w.Root, f.ArgVia)
	}
	switch spelling {
	case "abs":
		if f.ArgVia != "" {
			return filepath.Join(RootPH, f.ArgVia)
		}
		return filepath.Join(RootPH, f.Rel())
	case "dot":
		r, err := filepath.Rel(w.Cwd, abs)
		if err != nil {
			return abs
		}
		return "./" + r
	default:
		r, err := filepath.Rel(w.Cwd, abs)
		if err != nil {
			return abs
		}
		return r
	}
}

// ---- feature mask (swarm) ----------------------------------------------------------

type Feat struct {
	Enum, AllOf, AnyOf, Array, Nested, LocalRef, FileRef, Recur, YAML, IDs bool
	AddlProps, Defaults, Formats, Nullable, Bounds, Docs, BoolSchema       bool
	Subdirs, Symlink, NoExt, Pkgs, TypelessRoot, OddKeys                   bool
	RecCombo                                                               bool // allow reference cycles through allOf/anyOf
	Shadow                                                                 bool // two files named common.json in two directories
	UntypedRecRoot                                                         bool // a document whose root has properties but no "type" and refers to itself as a whole file
	WebDoc                                                                 bool // one schema is served over (simulated) HTTP and referenced by URL, twice
	WeirdName                                                              bool // a file whose name contains %41 / ? next to a decoy named as the decoded form
	ExtShadow                                                              bool // e0f.json and e0f.yaml side by side, referenced without extension
	SamePkgBase                                                            bool // mapped packages share their last path element (pk1/v1, pk2/v1): no cross-package refs then
	Decoys                                                                 bool // inert near-duplicate mapping keys (id + "#", id + "/")
	Twins                                                                  bool // definition / property names that collide as Go identifiers (foo_bar vs foo-bar, Acct vs acct)
	SharedDef                                                              bool // several files define a definition literally named "Shared" (identical ref spelling, different targets)
	PlainMarkers                                                           bool // no allOf/anyOf $ref branches (merged copies would carry markers too); every id is emitted
	ReqCycle                                                               bool // a recursive $ref property may be required (schema no finite document satisfies)
	SharedID                                                               bool // two different documents carry the same $id
	SlashDef                                                               bool // a definition named "<Def>/x" next to <Def>
}

func drawFeat(t *rapid.T) Feat {
	b := func(name string, pct int) bool { return rapid.IntRange(0, 99).Draw(t, "f:"+name) < pct }
	return Feat{
		Enum: b("enum", 60), AllOf: b("allof", 45), AnyOf: b("anyof", 40), Array: b("array", 60), Nested: b("nested", 60),
		LocalRef: b("localref", 60), FileRef: b("fileref", 70), Recur: b("recur", 35), YAML: b("yaml", 35), IDs: b("ids", 50),
		AddlProps: b("addl", 35), Defaults: b("defaults", 40), Formats: b("formats", 30), Nullable: b("nullable", 40),
		Bounds: b("bounds", 60), Docs: b("docs", 40), BoolSchema: b("boolschema", 15),
		Subdirs: b("subdirs", 55), Symlink: b("symlink", 15), NoExt: b("noext", 20), Pkgs: b("pkgs", 35),
		TypelessRoot: b("typelessroot", 15), OddKeys: b("oddkeys", 15),
	}
}

// ---- generation ---------------------------------------------------------------------------

type genCtx struct {
	t     *rapid.T
	w     *World
	f     *SFile
	feat  Feat
	nprop int
	depth int
	// curDef is the index (in f.Defs) of the marker definition being generated,
	// -1 at the root. Unless feat.RecCombo is set, allOf/anyOf branch refs only
	// point to definitions with a higher index, so that no reference cycle runs
	// through a combinator (that shape is known finding F-C18-5: it never ends).
	curDef int
	// comboOnly restricts drawRef to targets that cannot lead back through a
	// combinator: local definitions with a higher index, other files only when
	// cross-file recursion is off.
	comboOnly bool
}

var dirsPool = []string{"", "a", "b", "a/sub", "c"}

// GenWorld draws a world of 1..maxFiles schema files.
func GenWorld(t *rapid.T, maxFiles int) *World { return GenWorldOpt(t, maxFiles, false, false) }

// GenWorldOpt: recCombo forces reference cycles through allOf/anyOf to be
// possible; http allows one schema to be referenced over (simulated) HTTP.
func GenWorldOpt(t *rapid.T, maxFiles int, recCombo, http bool) *World {
	return genWorld(t, maxFiles, recCombo, http, false)
}

// GenWorldC10 additionally draws the discriminating layouts of C10: the same
// relative spelling denoting two different files, and extension shadowing.
// symDirWorld: a document that is named on the command line THROUGH A SYMBOLIC LINK TO ITS DIRECTORY (api ->
// shared/api) and leaves that directory with "..": "../common.json" is /w/common.json read as a URI reference and
// /w/shared/common.json as the file system walks it. Both exist, so the run succeeds under either reading, and that
// reference is not judged. What is judged is the reference "./common.json" of order.json at the top, which has no link
// anywhere near it: it denotes /w/common.json whatever was loaded before (seeded change s104: the loader follows the
// link, the cache in front of it still computes the textual name).
func symDirWorld() *World {
	str := Obj{{"type", "string"}}
	mk := func(tag, dir, base string, props Obj) *SFile {
		f := &SFile{Tag: tag, Dir: dir, Base: base, RootObj: true}
		f.Doc = Obj{{"type", "object"}, {"properties", append(Obj{{"mk_" + tag, str}}, props...)}}
		return f
	}
	t0 := mk("t0", "shared/api", "main.json", Obj{{"t0up", Obj{{"$ref", "../common.json"}}}})
	t0.ArgVia = "api/main.json"
	t1 := mk("t1", "", "order.json", Obj{{"t1r1", Obj{{"$ref", "./common.json"}}}})
	t1.Refs = []RefUse{{FromTag: "t1", Prop: "t1r1", Ref: "./common.json", ToTag: "t2", Spelling: "dot-after-symlinked-dir"}}
	t2 := mk("t2", "", "common.json", Obj{{"t2id", Obj{{"type", "integer"}}}})
	t3 := mk("t3", "shared", "common.json", Obj{{"t3uuid", str}})
	t3.Doc = append(t3.Doc, KV{"required", []any{"t3uuid"}})
	w := &World{Root: "/w", Cwd: "/w", Files: []*SFile{t0, t1, t2, t3}, Links: []Link{{Path: "api", Target: "shared/api"}},
		Opts: Options{Package: "example.com/m/main"}}
	return w
}

func GenWorldC10(t *rapid.T, maxFiles int) *World {
	if rapid.IntRange(0, 11).Draw(t, "symdir") == 0 {
		return symDirWorld()
	}
	comboDefs, SameNameTwins = false, true
	defer func() { comboDefs, SameNameTwins = true, false }()
	return genWorld(t, maxFiles, false, false, true)
}

// GenWorldMulti biases towards several files with cross-file references (C20).
func GenWorldMulti(t *rapid.T, maxFiles int) *World {
	multiBias, comboDefs = true, false
	defer func() { multiBias, comboDefs = false, true }()
	return genWorld(t, maxFiles, false, false, false)
}

var multiBias bool

// SameNameTwins (C10 only): see genWorld. Elsewhere the order-dependent choice of which twin is called Sub and
// which Sub_1 ("Multiple types map to the name") would be misread by the order-independence oracles.
var SameNameTwins bool

// comboDefs is switched off by the C20 and C10 generators: a definition that is
// itself type:object + allOf and is referenced more than once makes the pinned
// tree emit its unmarshal methods several times - invalid Go, but a pure function
// of the single file (C01 territory), which C20's duplicate-declaration clause and
// C10 would otherwise keep reporting.
var comboDefs = true

// SelfNamedDefs (C12 only): a definition named like the file's root type makes the
// tool drop the root type silently (documented mechanism: "root type skipped if name
// already declared"), which would make defect positions under the root unreachable
// for C18 and markers disappear for C20/C10.
var SelfNamedDefs = false

func genWorld(t *rapid.T, maxFiles int, recCombo, http, shadows bool) *World {
	feat := drawFeat(t)
	if multiBias || shadows {
		if rapid.IntRange(0, 9).Draw(t, "f:forcefileref") < 8 {
			feat.FileRef = true
		}
	}
	if multiBias && rapid.IntRange(0, 9).Draw(t, "f:forcepkgs") < 5 {
		// several packages with ids, so that cross-package links are common in C20 worlds
		feat.Pkgs, feat.IDs = true, true
	}
	feat.ReqCycle = true // only C10 worlds restrict required references
	feat.SharedDef = rapid.IntRange(0, 99).Draw(t, "f:shareddef") < 35
	feat.Twins = rapid.IntRange(0, 99).Draw(t, "f:twins") < 25
	feat.SamePkgBase = rapid.IntRange(0, 99).Draw(t, "f:samepkgbase") < 25
	feat.Decoys = rapid.IntRange(0, 99).Draw(t, "f:decoys") < 25
	if shadows {
		feat.PlainMarkers = true
		feat.ReqCycle = rapid.IntRange(0, 99).Draw(t, "f:reqcycle") < 10
		feat.Shadow = rapid.IntRange(0, 99).Draw(t, "f:shadow") < 40
		feat.ExtShadow = rapid.IntRange(0, 99).Draw(t, "f:extshadow") < 30
		feat.WeirdName = rapid.IntRange(0, 99).Draw(t, "f:weirdname") < 25
		feat.WebDoc = rapid.IntRange(0, 99).Draw(t, "f:webdoc") < 20
		feat.UntypedRecRoot = rapid.IntRange(0, 99).Draw(t, "f:untypedrecroot") < 20
		if feat.Shadow {
			feat.Subdirs = true
		}
		if feat.ExtShadow {
			feat.NoExt = true
		}
	}
	if SelfNamedDefs && !shadows && rapid.IntRange(0, 99).Draw(t, "f:extshadow12") < 12 {
		// (C12 worlds) two candidates for an extension-less reference, e0f.json and e0f.yaml: which one is read is decided by
		// the ORDER of the --resolve-extension values, which is content - not by an order the tool makes up (seeded
		// change s105: the list rebuilt from a set and sorted by length only)
		feat.ExtShadow, feat.NoExt = true, true
	}
	if recCombo {
		feat.RecCombo, feat.LocalRef, feat.Recur = true, true, true
		feat.AllOf = true
	}
	w := &World{Root: "/w", Feat: feat}
	n := rapid.IntRange(1, maxFiles).Draw(t, "nfiles")
	if (multiBias || shadows) && n == 1 && maxFiles >= 2 && rapid.IntRange(0, 9).Draw(t, "f:atleast2") < 8 {
		n = 2
	}
	npkg := 1
	if feat.Pkgs && feat.IDs && n > 1 {
		npkg = rapid.IntRange(1, min(n, 3)).Draw(t, "npkg")
	}
	for i := 0; i < n; i++ {
		f := &SFile{Tag: fmt.Sprintf("t%d", i)}
		if feat.Subdirs {
			f.Dir = rapid.SampledFrom(dirsPool).Draw(t, "dir")
		}
		ext := ".json"
		if feat.YAML && rapid.IntRange(0, 1).Draw(t, "yaml") == 0 {
			f.YAML = true
			ext = rapid.SampledFrom([]string{".yaml", ".yml"}).Draw(t, "yext")
		}
		if f.YAML && rapid.IntRange(0, 2).Draw(t, "crlf") == 0 {
			f.CRLF = true
		}
		if !f.YAML && rapid.IntRange(0, 9).Draw(t, "otherext") == 0 {
			// JSON content under an extension that is neither .json nor a YAML one: still JSON
			ext = ".schema"
		}
		f.Base = f.Tag + "f" + ext
		if feat.NoExt && rapid.IntRange(0, 2).Draw(t, "dottedstem") == 0 {
			// a dot in the stem (address-1.0.json, types.v2.yaml): "t0f.v1" is not a name with extension ".v1"
			f.Base = f.Tag + "f.v1" + ext
		}
		if feat.IDs || npkg > 1 {
			f.ID = "https://example.com/" + f.Tag
			if rapid.IntRange(0, 7).Draw(t, "idhash") == 0 {
				f.ID += "#" // draft-04 style id with an empty fragment; mapping keys repeat it verbatim
			}
		}
		if npkg > 1 {
			f.Pkg = rapid.IntRange(0, npkg-1).Draw(t, "pkg")
		}
		if multiBias && i > 0 && f.ID != "" && rapid.IntRange(0, 9).Draw(t, "sameid") == 0 {
			// two DIFFERENT documents that carry one $id (a v1/v2 pair that kept its id, a copied template): they share
			// whatever is mapped to the id - package, output - and nothing else; each is still generated in full
			f.ID, f.Pkg = w.Files[i-1].ID, w.Files[i-1].Pkg
			feat.SharedID = true
			w.Feat.SharedID = true
		}
		// names of marker-carrying object definitions are fixed before bodies so
		// that other files can refer to them
		nd := rapid.IntRange(0, 2).Draw(t, "ndefs")
		// one file in eight spells its definition names with a letter whose lower-case form has another byte
		// length (Turkish capital dotted I): names are compared case-insensitively in places
		uni := ""
		if rapid.IntRange(0, 7).Draw(t, "unicodedefs") == 0 {
			uni = "\u0130L"
		}
		if nd > 0 && rapid.IntRange(0, 3).Draw(t, "aliasdef") == 0 {
			f.AliasOf = fmt.Sprintf("%sDa%s", strings.ToUpper(f.Tag[:1])+f.Tag[1:], uni)
		}
		for d := 0; d < nd; d++ {
			f.Defs = append(f.Defs, fmt.Sprintf("%sD%c%s", strings.ToUpper(f.Tag[:1])+f.Tag[1:], 'a'+d, uni))
		}
		f.RootObj = !(feat.TypelessRoot && rapid.IntRange(0, 3).Draw(t, "typeless") == 0)
		f.BothDefs = rapid.IntRange(0, 99).Draw(t, "bothdefs") < 12
		w.Files = append(w.Files, f)
	}
	if feat.SharedDef {
		var elig []*SFile
		for _, f := range w.Files {
			uniq := true
			for _, o := range w.Files {
				if o != f && o.Pkg == f.Pkg {
					uniq = false
				}
			}
			if uniq && !(shadows && len(w.Files) < 2) {
				elig = append(elig, f)
			}
		}
		if len(elig) >= 2 {
			for _, f := range elig {
				// SharedA / SharedB / Shared: the same three names in every eligible file; Shared
				// holds "sharedany": anyOf over refs to the two helpers, so that every package
				// emits the same alias declarations (type SharedSharedany_0 = SharedA)
				f.Defs = append(f.Defs, "SharedA", "SharedB", "Shared")
			}
		}
	}
	if feat.Shadow {
		if n >= 1 {
			w.Files[0].Dir = "a"
		}
		if n >= 2 {
			w.Files[1].Dir = "b"
		}
		for i, d := range []string{"a", "b"} {
			tag := fmt.Sprintf("s%d", i)
			// both are called common.json, both have a typed root; their ids map them to
			// distinct root type names (same output, same package), so that the identical
			// spelling "./common.json" denotes two different Go types
			sf := &SFile{Tag: tag, Dir: d, Base: "common.json", RootObj: true, ID: "https://example.com/" + tag,
				Defs: []string{fmt.Sprintf("S%dDa", i)}}
			w.Files = append(w.Files, sf)
		}
	}
	typeNameFile := false
	if shadows && npkg <= 1 && len(w.Files) > 0 && len(w.Files[0].Defs) > 0 && !strings.ContainsRune(w.Files[0].Defs[0], 0x130) && !strings.HasPrefix(w.Files[0].Defs[0], "Shared") &&
		rapid.IntRange(0, 4).Draw(t, "typenamefile") == 0 {
		// a document whose file name, extension left off, reads exactly like the Go name of a definition of its
		// referrer (T0Da.json next to the document that defines T0Da): "$ref": "T0Da" is a FILE reference
		f0 := w.Files[0]
		w.Files = append(w.Files, &SFile{Tag: "j0", Dir: f0.Dir, Base: f0.Defs[0] + ".json", RootObj: true})
		typeNameFile = true
	}
	if feat.UntypedRecRoot {
		uy := rapid.IntRange(0, 2).Draw(t, "untypedyaml") == 0
		uf := &SFile{Tag: "u0", Base: "u0f.json", RootObj: true, YAML: uy}
		if uy {
			uf.Base = "u0f.yaml"
		}
		w.Files = append(w.Files, uf)
		if rapid.Bool().Draw(t, "composedroot") {
			// ... and one whose root has neither "type" nor "properties": it is an allOf over one of its own definitions
			// and an inline branch. Referenced as a whole file it is still the object those branches describe (seeded
			// change s103: "a typeless root is an object only if it lists properties" made it interface{})
			w.Files = append(w.Files, &SFile{Tag: "u1", Base: "u1f.json", Defs: []string{"U1Da"}})
		}
	}
	if feat.WebDoc {
		yaml := rapid.IntRange(0, 3).Draw(t, "webyaml") == 0
		hf := &SFile{Tag: "h0", Base: "webf.json", RootObj: true, ID: "https://example.com/h0", Defs: []string{"H0Da"}, URL: "http://example.com/s/webf.json"}
		if yaml {
			hf.YAML, hf.Base, hf.URL = true, "webf.yaml", "http://example.com/s/webf.yaml"
		}
		w.Files = append(w.Files, hf)
		if rapid.Bool().Draw(t, "webquery") {
			// a second document at the same path, told apart by the query string only
			hf.URL += "?version=1"
			h1 := &SFile{Tag: "h1", Base: hf.Base, YAML: hf.YAML, RootObj: true, ID: "https://example.com/h1", Defs: []string{"H1Da"}, URL: strings.TrimSuffix(hf.URL, "1") + "2"}
			w.Files = append(w.Files, h1)
		}
	}
	if feat.WeirdName {
		// a reference is a literal file name: "w0%41f.json" is not "w0Af.json", "w1?f.json"
		// is not "w1" with a query; the decoys are what a URL-decoding resolver would open
		kind := rapid.IntRange(0, 1).Draw(t, "weirdkind")
		real, decoy := "w0%41f.json", "w0Af.json"
		if kind == 1 {
			real, decoy = "w1?f.json", "w1"
		}
		w.Files = append(w.Files, &SFile{Tag: "w0", Dir: "", Base: real, Defs: []string{"W0Da"}})
		w.Files = append(w.Files, &SFile{Tag: "wd", Dir: "", Base: decoy, Defs: []string{"W0Da"}})
	}
	if feat.ExtShadow {
		cands := []struct{ tag, ext string }{{"e0j", ".json"}, {"e0y", ".yaml"}}
		if rapid.Bool().Draw(t, "literalnoext") {
			// a file literally named e0f: the reference "e0f" denotes it before any extension is tried
			cands = append(cands, struct{ tag, ext string }{"e0n", ""})
		} else if rapid.IntRange(0, 2).Draw(t, "dirnoext") == 0 {
			// a DIRECTORY named e0f next to e0f.json / e0f.yaml: not a schema, the extensions still have to be tried
			w.Extra = append(w.Extra, simrt.Node{Path: filepath.Join(w.Root, "e0f"), Kind: "d"}, simrt.Node{Path: filepath.Join(w.Root, "e0f", "README"), Kind: "f", Data: []byte("a directory\n")})
		}
		for _, e := range cands {
			sf := &SFile{Tag: e.tag, Dir: "", Base: "e0f" + e.ext, YAML: e.ext == ".yaml", Defs: []string{"E0Da"}}
			if w.Files[0].ID != "" {
				sf.ID = "https://example.com/" + e.tag
			}
			w.Files = append(w.Files, sf)
		}
	}
	if shadows && npkg <= 1 && rapid.IntRange(0, 5).Draw(t, "idnamesneighbour") == 0 {
		// a document whose $id ends in the FILE NAME of the next document (address-v2.json, copied from address.json, kept
		// the id ".../address.json"): a reference "address.json#/..." in it names the file next to it - the property says
		// file paths are resolved relative to the referring document -, not the document itself (seeded change s95)
		for i := 0; i+1 < len(w.Files); i++ {
			a, b := w.Files[i], w.Files[i+1]
			if a.ID != "" && !isSpecial(a) && !isSpecial(b) && a.Dir == b.Dir {
				a.ID = "https://example.com/schemas/" + b.Base
				break
			}
		}
	}
	if multiBias && !w.Feat.SharedID && rapid.IntRange(0, 7).Draw(t, "relidnamesneighbour") == 0 {
		// (C20 worlds) a RELATIVE $id that happens to be the file name of the next document ("$id": "c.json" left over in
		// x.json, next to a real c.json): an id is a name for mapping flags, not a second address under which other
		// documents are found (seeded change s109: loaded documents also cached under their resolved $id)
		for i := 0; i+1 < len(w.Files); i++ {
			a, b := w.Files[i], w.Files[i+1]
			if a.ID != "" && !isSpecial(a) && !isSpecial(b) && a.Dir == b.Dir {
				a.ID = b.Base
				break
			}
		}
	}
	// options
	w.Opts = drawOptions(t, w, npkg)
	if typeNameFile {
		hasJSON := false
		for _, e := range w.Opts.ResolveExt {
			hasJSON = hasJSON || e == ".json"
		}
		if !hasJSON {
			w.Opts.ResolveExt = append(w.Opts.ResolveExt, ".json")
		}
	}
	if feat.Shadow {
		out := w.Opts.Output
		if out == "" {
			out = "-"
		}
		for i := 0; i < 2; i++ {
			id := fmt.Sprintf("https://example.com/s%d", i)
			w.Opts.SchemaRoot = append(w.Opts.SchemaRoot, Pair{id, fmt.Sprintf("RootS%d", i)})
			w.Opts.SchemaOut = append(w.Opts.SchemaOut, Pair{id, out})
		}
	}
	if feat.ExtShadow {
		w.Opts.ResolveExt = rapid.SampledFrom([][]string{{".json", ".yaml"}, {".yaml", ".json"}, {".yml", ".yaml", ".json"}, {".json", ".yml", ".yaml"}}).Draw(t, "rext2")
	}
	// cwd
	w.Cwd = w.Root
	if feat.Subdirs {
		w.Cwd = rapid.SampledFrom([]string{"/w", "/w", "/w/a", "/", "/elsewhere"}).Draw(t, "cwd")
	}
	// symlink: a directory "ln" with links to some files under the same base name
	if feat.Symlink {
		for _, f := range w.Files {
			if rapid.Bool().Draw(t, "link") {
				w.Links = append(w.Links, Link{Path: filepath.Join("ln", f.Base), Target: filepath.Join("..", f.Rel())})
			}
		}
	}
	for _, f := range w.Files {
		ff := feat
		if isSpecial(f) {
			// shadow files are leaves: no references, no combinators, no enums
			ff.LocalRef, ff.FileRef, ff.AllOf, ff.AnyOf, ff.Enum, ff.Recur = false, false, false, false, false, false
		}
		g := &genCtx{t: t, w: w, f: f, feat: ff, curDef: -1}
		g.genDoc()
	}
	if feat.Docs && len(w.Files) >= 2 && rapid.IntRange(0, 3).Draw(t, "deftitles") == 0 {
		// definitions that carry the TITLE of another document's root (titles are free-form and repeat across
		// documents): inert today - only the root's title is ever used for a name
		for i, f := range w.Files {
			if isSpecial(f) || len(f.Defs) == 0 {
				continue
			}
			o := w.Files[(i+1)%len(w.Files)]
			if isSpecial(o) || o == f {
				continue
			}
			key := defsKey(f.Doc)
			dv, ok := f.Doc.Get(key)
			do, ok2 := dv.(Obj)
			if !ok || !ok2 {
				continue
			}
			nd := append(Obj{}, do...)
			for j := range nd {
				if nd[j].K == f.Defs[0] {
					if body, ok := nd[j].V.(Obj); ok {
						nd[j].V = append(Obj{{"title", "Title " + o.Tag}}, body.Del("title")...)
					}
				}
			}
			f.Doc = f.Doc.Set(key, nd)
		}
	}
	if SameNameTwins && rapid.IntRange(0, 5).Draw(t, "scopegadget") == 0 {
		// (C10 worlds) the in-scope bookkeeping of allOf: Cat = allOf[Animal, Pet], Pet.previous = allOf[Meta, Animal] -
		// when Pet.previous is reached Animal is in scope (a false cycle: previous comes out as interface{}); afterwards
		// nothing may be left in scope: gztagged = allOf[Meta, extra branch] must still be a struct with Meta's fields
		for _, f := range w.Files {
			if isSpecial(f) || !f.RootObj || f.YAML {
				continue
			}
			key := defsKey(f.Doc)
			var defs Obj
			if dv, ok := f.Doc.Get(key); ok {
				defs, _ = dv.(Obj)
			}
			str := Obj{{"type", "string"}}
			ref := func(n string) any { return Obj{{"$ref", "#/" + key + "/" + n}} }
			cbBranch := func(n string) any {
				return Obj{{"type", "object"}, {"properties", Obj{{"cb_" + f.Tag + "_" + n, str}}}}
			}
			nd := append(Obj{}, defs...)
			nd = append(nd,
				KV{"GzAnimal", Obj{{"type", "object"}, {"properties", Obj{{"mk_" + f.Tag + "_GzAnimal", str}}}}},
				KV{"GzMeta", Obj{{"type", "object"}, {"properties", Obj{{"mk_" + f.Tag + "_GzMeta", str}, {"gzid", Obj{{"type", "integer"}, {"minimum", 1}}}}}, {"required", []any{"gzid"}}}},
				KV{"GzPet", Obj{{"type", "object"}, {"properties", Obj{{"gzprevious", Obj{{"allOf", []any{ref("GzMeta"), ref("GzAnimal"), cbBranch("gzp")}}}}}}}},
				KV{"GzCat", Obj{{"type", "object"}, {"allOf", []any{ref("GzAnimal"), ref("GzPet"), cbBranch("gzc")}}}})
			f.Doc = f.Doc.Set(key, nd)
			f.Defs = append(f.Defs, "GzAnimal", "GzMeta")
			props, _ := f.Doc.Get("properties")
			po, _ := props.(Obj)
			cb := "cb_" + f.Tag + "_gz"
			po = append(append(Obj{}, po...),
				KV{f.Tag + "gzcat", ref("GzCat")},
				KV{f.Tag + "gztagged", Obj{{"allOf", []any{ref("GzMeta"), Obj{{"type", "object"}, {"properties", Obj{{cb, str}}}}}}}})
			f.Doc = f.Doc.Set("properties", po)
			f.Refs = append(f.Refs, RefUse{FromTag: f.Tag, Prop: f.Tag + "gztagged", Ref: "#/" + key + "/GzMeta", ToTag: f.Tag, ToDef: "GzMeta", Spelling: "scopegadget", LocalOnly: true, Combo: "allOf", CB: cb})
			break
		}
	}
	if SameNameTwins && rapid.IntRange(0, 5).Draw(t, "aliascycle") == 0 {
		// a definition that is ONLY another name for a marker definition ({"$ref": "#/$defs/T0Da"}, sorting before it) and
		// sits on a cycle: T0Da.kids = array of the alias, T0Da.next = the alias. Today a reference to such a definition
		// is an interface{}; whatever it becomes, it must be a declared type that carries T0Da's marker (seeded change
		// s87: the placeholder declared while the alias is being resolved was captured by the cycle and never emitted).
		for _, f := range w.Files {
			if isSpecial(f) || !f.RootObj || len(f.Defs) == 0 || strings.HasPrefix(f.Defs[0], "Shared") || f.Defs[0] == f.ClashDef {
				continue
			}
			key := defsKey(f.Doc)
			dv, ok := f.Doc.Get(key)
			defs, _ := dv.(Obj)
			target := f.Defs[0]
			body, ok2 := defs.Get(target)
			bo, _ := body.(Obj)
			pv, ok3 := bo.Get("properties")
			po, _ := pv.(Obj)
			if !ok || !ok2 || !ok3 {
				continue
			}
			alias := strings.ToUpper(f.Tag[:1]) + f.Tag[1:] + "Aa" // T0Aa < T0Da: generated first
			ref := Obj{{"$ref", "#/" + key + "/" + alias}}
			po = append(append(Obj{}, po...), KV{f.Tag + "alkids", Obj{{"type", "array"}, {"items", ref}}}, KV{f.Tag + "alnext", ref})
			nd := append(Obj{}, defs...).Set(target, append(Obj{}, bo...).Set("properties", po))
			nd = append(nd, KV{alias, Obj{{"$ref", "#/" + key + "/" + target}}})
			f.Doc = f.Doc.Set(key, nd)
			rp, _ := f.Doc.Get("properties")
			rpo, _ := rp.(Obj)
			f.Doc = f.Doc.Set("properties", append(append(Obj{}, rpo...), KV{f.Tag + "alroot", ref}))
			for _, ru := range []RefUse{
				{FromTag: f.Tag, FromDef: target, Prop: f.Tag + "alkids", ViaArray: true},
				{FromTag: f.Tag, FromDef: target, Prop: f.Tag + "alnext"},
				{FromTag: f.Tag, Prop: f.Tag + "alroot"},
			} {
				ru.Ref, ru.ToTag, ru.ToDef, ru.Spelling, ru.LocalOnly, ru.PureAlias = "#/"+key+"/"+alias, f.Tag, target, "purealias", true, true
				f.Refs = append(f.Refs, ru)
			}
			break
		}
	}
	if SameNameTwins && rapid.IntRange(0, 5).Draw(t, "slashdef") == 0 {
		// a definition whose NAME contains a slash ("T0Da/x", like media types: "text/plain") next to the definition
		// named like the part before the slash: "#/$defs/T0Da/x" denotes the former (the literal key; read strictly as a
		// JSON pointer it denotes nothing at all) - never T0Da (seeded change s88: a walker for nested definitions
		// that stops at the longest prefix it can follow)
		for _, f := range w.Files {
			if isSpecial(f) || !f.RootObj || len(f.Defs) == 0 || strings.HasPrefix(f.Defs[0], "Shared") || f.Defs[0] == f.ClashDef {
				continue
			}
			key := defsKey(f.Doc)
			dv, ok := f.Doc.Get(key)
			defs, _ := dv.(Obj)
			rp, ok2 := f.Doc.Get("properties")
			rpo, _ := rp.(Obj)
			if !ok || !ok2 {
				continue
			}
			name := f.Defs[0] + "/x"
			str := Obj{{"type", "string"}}
			nd := append(append(Obj{}, defs...), KV{name, Obj{{"type", "object"}, {"properties", Obj{{"mk_" + f.Tag + "_" + name, str}, {f.Tag + "slval", Obj{{"type", "integer"}}}}}, {"required", []any{f.Tag + "slval"}}}})
			f.Doc = f.Doc.Set(key, nd)
			f.Doc = f.Doc.Set("properties", append(append(Obj{}, rpo...), KV{f.Tag + "slref", Obj{{"$ref", "#/" + key + "/" + name}}}))
			f.Defs = append(f.Defs, name)
			f.Refs = append(f.Refs, RefUse{FromTag: f.Tag, Prop: f.Tag + "slref", Ref: "#/" + key + "/" + name, ToTag: f.Tag, ToDef: name, Spelling: "slashname", LocalOnly: true})
			w.Feat.SlashDef = true
			break
		}
	}
	if SameNameTwins && npkg <= 1 && rapid.IntRange(0, 2).Draw(t, "samename") == 0 {
		// two documents of one package each define "Sub" - almost, but not quite, the same definition (the copy gained
		// a field, another default, a constraint). Each must keep a Go type of its own, whichever is generated first.
		var ord []*SFile
		for _, f := range w.Files {
			if !isSpecial(f) && f.RootObj {
				ord = append(ord, f)
			}
		}
		if len(ord) >= 2 {
			a, b := ord[0], ord[1]
			if rapid.Bool().Draw(t, "samenameswap") {
				a, b = b, a
			}
			kind := rapid.SampledFrom([]string{"subset", "default", "required", "constraint", "nested-default", "ref-target"}).Draw(t, "samenamekind")
			base := func() Obj {
				return Obj{{"type", "object"}, {"properties", Obj{{"subx", Obj{{"type", "string"}}}, {"subn", Obj{{"type", "object"}, {"properties", Obj{{"deep", Obj{{"type", "integer"}}}}}}}}}}
			}
			da, db := base(), base()
			setProp := func(d Obj, name string, v any) Obj {
				pr, _ := d.Get("properties")
				return d.Set("properties", append(Obj{}, pr.(Obj)...).Set(name, v))
			}
			switch kind {
			case "subset":
				db = setProp(db, "suby", Obj{{"type", "string"}, {"pattern", "^[0-9]{5}$"}})
			case "default":
				da = setProp(da, "subx", Obj{{"type", "string"}, {"default", "from-a"}})
				db = setProp(db, "subx", Obj{{"type", "string"}, {"default", "from-b"}})
			case "ref-target":
				// the two differ only in WHICH definition a property refers to
				if len(a.Defs) == 0 || len(b.Defs) == 0 {
					db = append(db, KV{"required", []any{"subx"}})
					kind = "required"
					break
				}
				da = setProp(da, "subr", Obj{{"$ref", "#/" + defsKey(a.Doc) + "/" + a.Defs[0]}})
				db = setProp(db, "subr", Obj{{"$ref", "#/" + defsKey(b.Doc) + "/" + b.Defs[0]}})
			case "required":
				db = append(db, KV{"required", []any{"subx"}})
			case "constraint":
				db = setProp(db, "subx", Obj{{"type", "string"}, {"minLength", 3}})
			default:
				da = setProp(da, "subn", Obj{{"type", "object"}, {"properties", Obj{{"deep", Obj{{"type", "integer"}, {"default", 1}}}}}})
				db = setProp(db, "subn", Obj{{"type", "object"}, {"properties", Obj{{"deep", Obj{{"type", "integer"}, {"default", 2}}}}}})
			}
			for i, f := range []*SFile{a, b} {
				d := da
				if i == 1 {
					d = db
				}
				key := defsKey(f.Doc)
				var defs Obj
				if dv, ok := f.Doc.Get(key); ok {
					defs, _ = dv.(Obj)
				}
				f.Doc = f.Doc.Set(key, append(append(Obj{}, defs...), KV{"Sub", d}))
				props, _ := f.Doc.Get("properties")
				po, _ := props.(Obj)
				prop := f.Tag + "sub"
				f.Doc = f.Doc.Set("properties", append(append(Obj{}, po...), KV{prop, Obj{{"$ref", "#/" + key + "/Sub"}}}))
				f.Refs = append(f.Refs, RefUse{FromTag: f.Tag, Prop: prop, Ref: "#/" + key + "/Sub", ToTag: f.Tag, ToDef: "Sub", Spelling: "samename:" + kind, LocalOnly: true})
			}
		}
	}
	if http && w.Files[0].RootObj && rapid.IntRange(0, 3).Draw(t, "http") == 0 {
		yaml := rapid.IntRange(0, 3).Draw(t, "httpyaml") == 0
		doc := Obj{{"$id", "https://example.com/web"}, {"type", "object"}, {"properties", Obj{{"mk_web", Obj{{"type", "string"}}}, {"webn", Obj{{"type", "integer"}}}}}}
		e := simrt.WebEnt{URL: "http://example.com/s/webf.json", ContentType: rapid.SampledFrom([]string{"application/json", "", "text/plain"}).Draw(t, "ctype"), Body: RenderJSON(doc, nil)}
		if yaml {
			e = simrt.WebEnt{URL: "http://example.com/s/webf.yaml", ContentType: rapid.SampledFrom([]string{"application/yaml", "", "text/yaml"}).Draw(t, "ctypey"), Body: RenderYAML(doc, nil)}
		}
		w.Web = append(w.Web, e)
		f := w.Files[0]
		props, _ := f.Doc.Get("properties")
		if po, ok := props.(Obj); ok {
			f.Doc = f.Doc.Set("properties", append(po, KV{f.Tag + "h1", Obj{{"$ref", e.URL}}}))
		}
	}
	return w
}

func drawOptions(t *rapid.T, w *World, npkg int) Options {
	o := Options{Package: "example.com/m/main"}
	b := func(name string, pct int) bool { return rapid.IntRange(0, 99).Draw(t, "o:"+name) < pct }
	o.Extra = b("extra", 35)
	o.OnlyModels = b("onlymodels", 15)
	o.MinSized = b("minsized", 35)
	o.TitleNames = w.Feat.Docs && b("titlenames", 25)
	if b("tags", 20) {
		o.Tags = rapid.SampledFrom([][]string{{"json"}, {"yaml"}, {"json", "yaml"}, {"json", "mapstructure"},
			{"json", "toml", "bson", "db"}, {"yaml", "xml", "json", "custom_a", "custom_b"}, {"mapstructure", "json", "zz", "aa"}}).Draw(t, "tagset")
	}
	if b("caps", 30) {
		o.Caps = []string{"ID", "URL"}
	}
	if w.Feat.NoExt {
		o.ResolveExt = rapid.SampledFrom([][]string{{".json"}, {".json", ".yaml"}, {".yaml", ".json"}, {".yml", ".yaml", ".json"}}).Draw(t, "rext")
	}
	if b("yamlext", 10) {
		o.YAMLExt = []string{".yaml", ".yml"}
	}
	out := rapid.IntRange(0, 3).Draw(t, "outmode")
	switch out {
	case 0: // stdout
	case 1:
		o.Output = "out/gen.go"
	case 2:
		o.Output = "gen.go"
	case 3:
		o.Output = "-"
	}
	if npkg > 1 && w.Feat.SamePkgBase {
		o.Package = "example.com/m/main/v1"
	}
	v2pkg := npkg > 1 && !w.Feat.SamePkgBase && b("v2pkg", 30)
	// one mapped group may have an output of its own but NO package of its own: "--schema-output ID=FILE" alone puts the
	// schema into FILE, in the default package (-p); the file sits next to the default output, as files of one package do
	// (seeded change s102: a mapping table whose entries are lost when an id has an output but no package)
	outOnly := npkg > 1 && !w.Feat.SamePkgBase && !v2pkg && b("outonly", 25)
	maxPkg := 0 // cross-package references go from lower to higher group numbers: the highest group is the one others share
	for _, f := range w.Files {
		maxPkg = max(maxPkg, f.Pkg)
	}
	if npkg > 1 {
		// one package + output per group; group 0 keeps the defaults
		for _, f := range w.Files {
			if f.Pkg == 0 {
				continue
			}
			pp := fmt.Sprintf("example.com/m/pk%d", f.Pkg)
			if w.Feat.SamePkgBase {
				pp += "/v1"
			} else if v2pkg && f.Pkg == maxPkg {
				// one mapped package whose path ends in a major-version element, like the mapstructure/v2 import
				// of files with typed additionalProperties: its Go name is v2 there and mapstructure here, so
				// nothing collides - unless import names are derived from the last path element (seeded change s86)
				pp += "/v2"
			}
			if SelfNamedDefs && f.Pkg == 1 && w.Feat.OddKeys {
				// (C12 worlds only) a package whose last element is not a Go identifier: go/format
				// fails for that output, the tool warns and falls back to unformatted code; the
				// bytes of every file must still not depend on the order the outputs are visited in
				pp = "example.com/m/my-pk1"
			}
			if hasKey(o.SchemaPkg, f.ID) || hasKey(o.SchemaOut, f.ID) {
				continue // a second document with the same id: one mapping
			}
			if outOnly && f.Pkg == 1 {
				o.SchemaOut = append(o.SchemaOut, Pair{f.ID, "out/main/pk1.go"})
				continue
			}
			o.SchemaPkg = append(o.SchemaPkg, Pair{f.ID, pp})
			o.SchemaOut = append(o.SchemaOut, Pair{f.ID, fmt.Sprintf("out/pk%d/gen.go", f.Pkg)})
		}
		if (o.Output == "" || o.Output == "-") && !b("stdoutdefault", 30) {
			o.Output = "out/main/gen.go"
		}
		if outOnly {
			o.Output = "out/main/gen.go"
		}
		if SelfNamedDefs && b("allstdout", 10) {
			// (C12 worlds only) every package is sent to standard output: rejected today ("same file, two
			// packages"); should it ever be allowed, the order of the sections must not be left to a map
			o.Output = ""
			for i := range o.SchemaOut {
				o.SchemaOut[i].V = "-"
			}
		}
	}
	if npkg > 1 {
		for _, f := range w.Files {
			if f.ID != "" && f.Pkg > 0 && !w.Feat.SharedID && b("rootnamepk", 15) {
				o.SchemaRoot = append(o.SchemaRoot, Pair{f.ID, "Root" + strings.ToUpper(f.Tag)})
			}
		}
	} else if len(w.Files) > 0 && w.Files[0].ID != "" && !w.Feat.SharedID && b("rootname", 15) {
		o.SchemaRoot = append(o.SchemaRoot, Pair{w.Files[0].ID, "Root" + strings.ToUpper(w.Files[0].Tag)})
		// a mapping without --schema-output means "do not emit this schema" (pinned by
		// the crossPackageNoOutput golden); usually give the id its output as well
		if w.Feat.PlainMarkers || !b("rootonly", 20) {
			out := o.Output
			if out == "" {
				out = "-"
			}
			o.SchemaOut = append(o.SchemaOut, Pair{w.Files[0].ID, out})
		}
	}
	if w.Feat.Decoys {
		// mapping keys that differ from a real id only by a trailing "#" or "/": inert
		// today (no schema has that id); any normalisation of ids makes them ambiguous
		for _, f := range w.Files {
			if f.ID == "" || !b("decoy", 50) {
				continue
			}
			suf := rapid.SampledFrom([]string{"#", "/"}).Draw(t, "decoysuffix")
			key := f.ID + suf
			if strings.HasSuffix(f.ID, "#") {
				key = strings.TrimSuffix(f.ID, "#") + "/"
				if suf == "#" {
					key = strings.TrimSuffix(f.ID, "#")
				}
			}
			o.SchemaPkg = append(o.SchemaPkg, Pair{key, "example.com/m/decoy"})
			o.SchemaOut = append(o.SchemaOut, Pair{key, "out/decoy/gen.go"})
		}
	}
	return o
}

func hasKey(ps []Pair, k string) bool {
	for _, p := range ps {
		if p.K == k {
			return true
		}
	}
	return false
}

func (g *genCtx) pct(name string, p int) bool {
	return rapid.IntRange(0, 99).Draw(g.t, name) < p
}

func (g *genCtx) newProp() string {
	g.nprop++
	return fmt.Sprintf("%sp%d", g.f.Tag, g.nprop)
}

func (g *genCtx) genDoc() {
	f := g.f
	if f.Tag == "u0" {
		// root without "type": the tool treats a whole-file $ref to it as an object; it refers
		// to itself (array of self, optional self, map of self) by its own file name
		self := Obj{{"$ref", f.Base}}
		props := Obj{{"mk_u0", Obj{{"type", "string"}}}, {"u0val", Obj{{"type", "integer"}}}}
		switch rapid.IntRange(0, 2).Draw(g.t, "u0shape") {
		case 0:
			props = append(props, KV{"u0kids", Obj{{"type", "array"}, {"items", self}}})
		case 1:
			props = append(props, KV{"u0next", self})
		default:
			props = append(props, KV{"u0kids", Obj{{"type", "array"}, {"items", self}}}, KV{"u0next", self})
		}
		f.Doc = Obj{{"$schema", "http://json-schema.org/draft-07/schema#"}, {"title", "Title u0"}, {"properties", props}}
		return
	}
	if f.Tag == "u1" {
		str := Obj{{"type", "string"}}
		f.Doc = Obj{{"$schema", "http://json-schema.org/draft-07/schema#"}, {"title", "Title u1"},
			{"allOf", []any{Obj{{"$ref", RootPH + "/u1f.json#/$defs/U1Da"}}, Obj{{"properties", Obj{{"mk_u1", str}, {"cb_u1_root", str}}}, {"required", []any{"mk_u1"}}}}},
			{"$defs", Obj{{"U1Da", Obj{{"type", "object"}, {"properties", Obj{{"mk_u1_U1Da", str}, {"u1val", Obj{{"type", "integer"}, {"minimum", 1}}}}}, {"required", []any{"u1val"}}}}}}}
		return
	}
	doc := Obj{}
	if !f.RootObj || g.pct("schemakw", 40) {
		doc = append(doc, KV{"$schema", "http://json-schema.org/draft-07/schema#"})
	}
	if f.ID != "" {
		k := "$id"
		if g.pct("legacyid", 30) {
			k = "id"
		}
		doc = append(doc, KV{k, f.ID})
	}
	if g.feat.Docs && g.pct("title", 50) {
		doc = append(doc, KV{"title", "Title " + f.Tag})
	}
	defsKey := "$defs"
	if !f.BothDefs && g.pct("legacydefs", 35) {
		defsKey = "definitions"
	}
	defs := Obj{}
	for i, d := range f.Defs {
		g.curDef = i
		defs = append(defs, KV{d, g.genMarkerObject("mk_"+f.Tag+"_"+d, d)})
	}
	g.curDef = -1
	if f.AliasOf != "" {
		defs = append(defs, KV{f.AliasOf + "Al", Obj{{"type", "object"}, {"$ref", "#/" + defsKey + "/" + f.AliasOf}}})
	}
	// a NAMED list type: a definition of type array whose items are a reference (possibly into another file and
	// package: `type T0Ls []other.T1Da`), used by a root property - the only mention of the other package may sit here
	listDef := ""
	if g.feat.Array && !isSpecial(f) && f.RootObj && g.pct("listdef", 30) {
		name := strings.ToUpper(f.Tag[:1]) + f.Tag[1:] + "Ls"
		g.curDef = len(f.Defs)
		if ru, ok := g.drawRef(name); ok {
			ru.Prop = "items"
			ru.ViaArray = true
			defs = append(defs, KV{name, Obj{{"type", "array"}, {"items", Obj{{"$ref", ru.Ref}}}}})
			f.Refs = append(f.Refs, ru)
			listDef = name
		}
		g.curDef = -1
	}
	// a few non-object definitions (enum / primitive / array), referable locally
	nx := 0
	if g.feat.LocalRef {
		nx = rapid.IntRange(0, 2).Draw(g.t, "nxdefs")
	}
	var xdefs []string
	for i := 0; i < nx; i++ {
		name := fmt.Sprintf("%sX%c", strings.ToUpper(f.Tag[:1])+f.Tag[1:], 'a'+i)
		g.depth = 1
		defs = append(defs, KV{name, g.genLeafOrEnum()})
		xdefs = append(xdefs, name)
	}
	_ = xdefs
	// a definition that is itself an allOf/anyOf of object branches (with required
	// lists to merge), referenced from several places: the combinator is merged
	// more than once in a run and must come out the same each time
	var comboDefRefs []string
	cdPct := 35
	if SelfNamedDefs {
		cdPct = 60 // (C12 worlds) the shape seeded change s16 needs; the newer C12 features had thinned it out at seed 1
	}
	if comboDefs && (g.feat.AllOf || g.feat.AnyOf) && !isSpecial(f) && g.pct("combodef", cdPct) {
		kw := "allOf"
		if !g.feat.AllOf || (g.feat.AnyOf && g.pct("combodefany", 30)) {
			kw = "anyOf"
		}
		up := strings.ToUpper(f.Tag[:1]) + f.Tag[1:]
		g.curDef = len(f.Defs) // no branch refs back into marker definitions
		cd := g.genCombo(kw).(Obj)
		g.curDef = -1
		if _, ok := cd.Get("type"); !ok {
			cd = append(Obj{{"type", "object"}}, cd...)
		}
		defs = append(defs, KV{up + "Cd", cd})
		comboDefRefs = append(comboDefRefs, up+"Cd", up+"Cd")
		if g.pct("combodef3", 40) {
			comboDefRefs = append(comboDefRefs, up+"Cd")
		}
	}
	if SelfNamedDefs && g.feat.Twins && !isSpecial(f) && f.RootObj && g.pct("selfnamed", 50) {
		// a definition named like the root type derived from the file name (t0f.json ->
		// T0FJson, or T0F when .json is a --resolve-extension): the name is taken when the
		// root type's turn comes; whatever the tool does then must not depend on how or
		// where the file was named
		ext := filepath.Ext(f.Base)
		stem := strings.TrimSuffix(strings.TrimSuffix(f.Base, ext), ".v1")
		name := strings.ToUpper(stem[:1]) + stem[1:2] + strings.ToUpper(stem[2:3]) + strings.ToUpper(ext[1:2]) + ext[2:]
		for _, e := range g.w.Opts.ResolveExt {
			if e == ext {
				name = strings.ToUpper(stem[:1]) + stem[1:2] + strings.ToUpper(stem[2:3])
				break
			}
		}
		defs = append(defs, KV{name, Obj{{"type", "object"}, {"properties", Obj{{"selfnamed", Obj{{"type", "boolean"}}}}}}})
	}
	var recComboRef string
	if g.feat.PlainMarkers && g.feat.AllOf && !isSpecial(f) && f.RootObj && g.pct("reccombodef", 30) {
		// a list-like definition: type object without own properties, fields from allOf, and
		// an OPTIONAL plain self reference inside the branch - must come out as a pointer
		name := strings.ToUpper(f.Tag[:1]) + f.Tag[1:] + "Rn"
		defs = append(defs, KV{name, Obj{{"type", "object"}, {"allOf", []any{Obj{{"type", "object"},
			{"properties", Obj{{"rnval", Obj{{"type", "string"}}}, {"rnnext", Obj{{"$ref", "#/$defs/" + name}}}}}, {"required", []any{"rnval"}}}}}}})
		recComboRef = name
	}
	var twinRefs []string
	var nameClash *RefUse
	if g.feat.Twins && g.feat.PlainMarkers && !isSpecial(f) && len(f.Defs) > 0 && f.RootObj {
		// a definition named exactly like the type derived for an inline object property of
		// another definition (T0Da + property t0p3 -> T0DaT0P3): the definition must still
		// get its own Go type (T0DaT0P3_1) and its referrers must use that one
		d0 := f.Defs[0]
		if dv, ok := defs.Get(d0); ok {
			if do, ok := dv.(Obj); ok {
				if props, ok := do.Get("properties"); ok {
					for _, kv := range props.(Obj) {
						po, isObj := kv.V.(Obj)
						if !isObj || !strings.HasPrefix(kv.K, f.Tag+"p") {
							continue
						}
						if ty, _ := po.Get("type"); ty != "object" {
							continue
						}
						if pp, ok := po.Get("properties"); !ok || len(pp.(Obj)) == 0 {
							continue
						}
						if _, hasCombo := po.Get("allOf"); hasCombo {
							continue
						}
						if _, hasCombo := po.Get("anyOf"); hasCombo {
							continue
						}
						clash := d0 + strings.ToUpper(f.Tag[:1]) + f.Tag[1:] + "P" + strings.TrimPrefix(kv.K, f.Tag+"p")
						f.Defs = append(f.Defs, clash)
						f.ClashDef = clash
						defs = append(defs, KV{clash, Obj{{"type", "object"}, {"properties", Obj{{"mk_" + f.Tag + "_" + clash, Obj{{"type", "string"}}}, {"clashonly", Obj{{"type", "boolean"}}}}}}})
						g.nprop++
						nameClash = &RefUse{FromTag: f.Tag, Prop: fmt.Sprintf("%sr%d", f.Tag, g.nprop), Ref: "#/$defs/" + clash, ToTag: f.Tag, ToDef: clash, Spelling: "nameclash", LocalOnly: true}
						break
					}
				}
			}
		}
	}
	if g.feat.Twins && !isSpecial(f) {
		// names that map to the same Go identifier (and have the same length): which one
		// gets the plain name and which the _1 suffix must not depend on map order
		up := strings.ToUpper(f.Tag[:1]) + f.Tag[1:]
		pairs := [][2]string{{up + "Tw_a", up + "Tw-a"}, {up + "Tc", f.Tag + "tc"}, {up + "Tw.b", up + "Tw b"}}
		np := rapid.IntRange(1, len(pairs)).Draw(g.t, "ntwins")
		for i := 0; i < np; i++ {
			a, b := pairs[i][0], pairs[i][1]
			defs = append(defs, KV{a, Obj{{"type", "object"}, {"properties", Obj{{"twx", Obj{{"type", "string"}}}}}}})
			defs = append(defs, KV{b, Obj{{"type", "object"}, {"properties", Obj{{"twy", Obj{{"type", "integer"}}}}}, {"required", []any{"twy"}}}})
			twinRefs = append(twinRefs, a, b)
		}
	}
	if f.RootObj {
		root := g.genMarkerObject("mk_"+f.Tag, "")
		if len(comboDefRefs) > 0 {
			props, _ := root.Get("properties")
			po := props.(Obj)
			for i, cr := range comboDefRefs {
				var v any = Obj{{"$ref", "#/$defs/" + cr}}
				if i == 1 {
					v = Obj{{"type", "array"}, {"items", v}}
				}
				po = append(po, KV{fmt.Sprintf("%scd%d", f.Tag, i), v})
			}
			root = root.Set("properties", po)
		}
		if recComboRef != "" {
			props, _ := root.Get("properties")
			root = root.Set("properties", append(props.(Obj), KV{f.Tag + "rn", Obj{{"$ref", "#/$defs/" + recComboRef}}}))
		}
		if nameClash != nil {
			props, _ := root.Get("properties")
			root = root.Set("properties", append(props.(Obj), KV{nameClash.Prop, Obj{{"$ref", nameClash.Ref}}}))
			f.Refs = append(f.Refs, *nameClash)
		}
		if listDef != "" {
			props, _ := root.Get("properties")
			root = root.Set("properties", append(props.(Obj), KV{f.Tag + "ls", Obj{{"$ref", "#/$defs/" + listDef}}}))
		}
		if len(twinRefs) > 0 {
			// refer to the twins so that their names propagate into field types
			props, _ := root.Get("properties")
			po := props.(Obj)
			for i, tr := range twinRefs {
				po = append(po, KV{fmt.Sprintf("%stw%d", f.Tag, i), Obj{{"$ref", "#/$defs/" + tr}}})
			}
			root = root.Set("properties", po)
		}
		for _, kv := range root {
			doc = append(doc, kv)
		}
	} else if g.pct("rootarray", 30) {
		doc = append(doc, KV{"type", "array"}, KV{"items", Obj{{"type", "string"}}})
	}
	if len(defs) > 0 {
		doc = append(doc, KV{defsKey, defs})
	}
	if f.BothDefs && len(defs) > 0 {
		decoys := Obj{}
		for _, kv := range defs {
			decoys = append(decoys, KV{kv.K, Obj{{"type", "object"}, {"properties", Obj{{"legacy_decoy_" + f.Tag, Obj{{"type", "integer"}}}}}, {"required", []any{"legacy_decoy_" + f.Tag}}}})
		}
		if g.pct("decoysfirst", 50) {
			doc = append(Obj{{"definitions", decoys}}, doc...)
		} else {
			doc = append(doc, KV{"definitions", decoys})
		}
	}
	f.Doc = doc
}

// genMarkerObject generates an object schema whose first property is the marker.
// fromDef is "" for the root struct. Attributable refs live here.
func (g *genCtx) genMarkerObject(marker, fromDef string) Obj {
	props := Obj{{marker, Obj{{"type", "string"}}}}
	var required []any
	np := rapid.IntRange(0, 4).Draw(g.t, "nprops")
	for i := 0; i < np; i++ {
		name := g.newProp()
		g.depth = 1
		pv := g.genType()
		props = append(props, KV{name, pv})
		if g.pct("required", 30) && g.mayRequire(pv) {
			required = append(required, name)
		}
	}
	// a common word spelled in a different case in every file (api / API / Api): the Go
	// identifier of each spelling must not depend on which file was seen first
	if g.feat.OddKeys || len(g.w.Opts.Caps) > 0 {
		idx := 0
		for i, wf := range g.w.Files {
			if wf == g.f {
				idx = i
			}
		}
		word := []string{"api", "API", "Api", "aPI"}[idx%4]
		props = append(props, KV{word + "_" + g.f.Tag + fromDef, Obj{{"type", "string"}}})
		props = append(props, KV{[]string{"Url", "url", "URL", "uRL"}[idx%4] + "_of_" + g.f.Tag + fromDef, Obj{{"type", "integer"}}})
	}
	// attributable refs
	nr := 0
	if g.feat.LocalRef || g.feat.FileRef {
		nr = rapid.IntRange(0, 3).Draw(g.t, "nrefs")
	}
	for i := 0; i < nr; i++ {
		if ru, ok := g.drawRef(fromDef); ok {
			var s any = Obj{{"$ref", ru.Ref}}
			if g.feat.Array && g.pct("refarr", 20) {
				s = Obj{{"type", "array"}, {"items", s}}
				ru.ViaArray = true
			}
			props = append(props, KV{ru.Prop, s})
			g.f.Refs = append(g.f.Refs, ru)
			if g.pct("reqref", 20) && g.mayRequire(s) {
				required = append(required, ru.Prop)
			}
		}
	}
	// attributable combinator refs: allOf/anyOf [ {$ref}, {cb_ marker branch} ]
	nc := 0
	if (g.feat.AllOf || g.feat.AnyOf) && (g.feat.LocalRef || g.feat.FileRef) {
		nc = rapid.IntRange(0, 2).Draw(g.t, "ncombos")
	}
	for i := 0; i < nc; i++ {
		g.comboOnly = true
		ru, ok := g.drawRef(fromDef)
		g.comboOnly = false
		if !ok {
			continue
		}
		kws := []string{}
		if g.feat.AllOf {
			kws = append(kws, "allOf")
		}
		if g.feat.AnyOf {
			kws = append(kws, "anyOf")
		}
		ru.Combo = rapid.SampledFrom(kws).Draw(g.t, "combokw")
		var cs Obj
		cs, ru.CB = g.comboSchema(ru.Combo, ru.Ref)
		props = append(props, KV{ru.Prop, cs})
		g.f.Refs = append(g.f.Refs, ru)
	}
	if fromDef == "Shared" && g.feat.AnyOf {
		cb := func(n string) any {
			return Obj{{"type", "object"}, {"properties", Obj{{"cb_" + g.f.Tag + "_" + n, Obj{{"type", "string"}}}}}}
		}
		props = append(props, KV{"sharedany", Obj{{"anyOf", []any{Obj{{"$ref", "#/$defs/SharedA"}}, Obj{{"$ref", "#/$defs/SharedB"}}, cb("sa")}}}})
		props = append(props, KV{"sharedlist", Obj{{"type", "array"}, {"items", Obj{{"anyOf", []any{Obj{{"$ref", "#/$defs/SharedB"}}, cb("sl"), Obj{{"$ref", "#/$defs/SharedA"}}}}}}}})
	}
	if fromDef == "" && SameNameTwins && !isSpecial(g.f) && g.feat.Recur && g.pct("hashself", 25) {
		// (C10 worlds) the root refers to itself as "#": the document's own root, whoever merges this node later
		// (seeded change s111: the answer for such a node was no longer remembered, and an allOf in ANOTHER document that
		// merges this root resolved "#" against itself)
		g.nprop++
		ru := RefUse{FromTag: g.f.Tag, Prop: fmt.Sprintf("%sr%d", g.f.Tag, g.nprop), Ref: "#", ToTag: g.f.Tag, Spelling: "hash", LocalOnly: true}
		props = append(props, KV{ru.Prop, Obj{{"$ref", "#"}}})
		g.f.Refs = append(g.f.Refs, ru)
	}
	if fromDef == "Shared" {
		// the same string enum (same Go type name, same constants) in every package that defines Shared: constants belong
		// to their package, whatever other packages of the run declare (seeded change s94)
		props = append(props, KV{"sharedkind", Obj{{"type", "string"}, {"enum", []any{"active", "inactive"}}}})
	}
	if fromDef == "" {
		props = g.forcedRefs(props)
	}
	o := Obj{{"type", "object"}}
	if g.feat.Docs && g.pct("desc", 40) {
		if g.pct("longtypedesc", 40) {
			o = append(o, KV{"description", longDesc})
		} else {
			o = append(o, KV{"description", "Description of " + marker + ".\nSecond line."})
		}
	}
	o = append(o, KV{"properties", props})
	if len(required) > 0 {
		o = append(o, KV{"required", required})
	}
	if g.feat.AddlProps && g.pct("addl", 30) {
		o = append(o, KV{"additionalProperties", g.genAddl()})
	}
	return o
}

func (g *genCtx) genAddl() any {
	switch rapid.IntRange(0, 4).Draw(g.t, "addlkind") {
	case 0:
		return false
	case 1:
		return true
	case 2:
		return Obj{{"type", "string"}}
	case 3:
		return Obj{{"type", "integer"}}
	default:
		return Obj{{"type", "object"}}
	}
}

// drawRef chooses a target and a spelling for an attributable ref.
func (g *genCtx) drawRef(fromDef string) (RefUse, bool) {
	f := g.f
	type target struct {
		file *SFile
		def  string
	}
	var ts []target
	linked := false
	for _, l := range g.w.Links {
		if l.Path == filepath.Join("ln", f.Base) {
			linked = true // reached through a symlink: relative base would be ambiguous
		}
	}
	if g.feat.LocalRef {
		for i, d := range f.Defs {
			if g.comboOnly && i <= g.curDef {
				continue
			}
			if d != fromDef || g.feat.Recur {
				ts = append(ts, target{f, d})
			}
		}
	}
	if isSpecial(f) {
		linked = true // shadow files only refer to themselves
	}
	if g.feat.FileRef && !linked && !(g.comboOnly && g.feat.Recur) {
		for _, o := range g.w.Files {
			if o == f || isSpecial(o) {
				continue
			}
			// Go forbids import cycles: across packages only refer "forward"
			// (higher package number to lower is not allowed) – same package: any.
			if o.Pkg != f.Pkg && (!(f.Pkg < o.Pkg) || g.feat.SamePkgBase) {
				continue
			}
			// cross-file recursion only if enabled: otherwise refer to later files only
			if !g.feat.Recur && o.Tag <= f.Tag {
				continue
			}
			if o.RootObj {
				ts = append(ts, target{o, ""})
			}
			for _, d := range o.Defs {
				ts = append(ts, target{o, d})
			}
		}
	}
	if len(ts) == 0 {
		return RefUse{}, false
	}
	tg := ts[rapid.IntRange(0, len(ts)-1).Draw(g.t, "reftarget")]
	if multiBias && g.pct("hub", 35) {
		// several referrers of ONE declaration in another file: take the last candidate that
		// lives in another file (the same one for every referrer)
		for i := len(ts) - 1; i >= 0; i-- {
			if ts[i].file != f {
				tg = ts[i]
				break
			}
		}
	}
	g.nprop++
	ru := RefUse{FromTag: f.Tag, FromDef: fromDef, Prop: fmt.Sprintf("%sr%d", f.Tag, g.nprop), ToTag: tg.file.Tag, ToDef: tg.def}
	frag := ""
	if tg.def != "" {
		if !tg.file.BothDefs && g.pct("fragdefs", 30) {
			frag = "#/definitions/" + tg.def
		} else {
			frag = "#/$defs/" + tg.def
		}
		if tg.file.AliasOf == tg.def && tg.file != f && g.pct("viaalias", 40) {
			frag += "Al" // through the typed alias: still denotes tg.def of tg.file
		}
	}
	if tg.file == f {
		ru.Ref = frag
		ru.Spelling = "fragment"
		ru.LocalOnly = true
		return ru, true
	}
	rel, err := filepath.Rel("/"+f.Dir, "/"+tg.file.Rel())
	if err != nil {
		return RefUse{}, false
	}
	// "viamissing": through a directory that does not exist and back (zz_none/../x.json) - file parts of references are
	// resolved like URIs, lexically, before the file system is asked
	spellings := []string{"plain", "dot", "fileurl", "abs", "absurl", "viamissing"}
	if g.feat.NoExt && len(g.w.Opts.ResolveExt) > 0 {
		spellings = append(spellings, "noext", "noext")
	}
	if g.feat.Symlink {
		for _, l := range g.w.Links {
			if l.Path == filepath.Join("ln", tg.file.Base) {
				spellings = append(spellings, "symlink", "symlink")
				break
			}
		}
	}
	sp := rapid.SampledFrom(spellings).Draw(g.t, "spelling")
	ru.Spelling = sp
	switch sp {
	case "plain":
		ru.Ref = rel
	case "dot":
		if strings.HasPrefix(rel, "../") {
			ru.Ref = rel
		} else {
			ru.Ref = "./" + rel
		}
	case "viamissing":
		ru.Ref = "zz_none/../" + rel
	case "fileurl":
		ru.Ref = "file://" + rel
	case "abs":
		ru.Ref = filepath.Join(RootPH, tg.file.Rel())
	case "absurl":
		ru.Ref = "file://" + filepath.Join(RootPH, tg.file.Rel())
	case "noext":
		ext := filepath.Ext(rel)
		ok := false
		for _, e := range g.w.Opts.ResolveExt {
			if e == ext {
				ok = true
			}
		}
		if ok {
			ru.Ref = strings.TrimSuffix(rel, ext)
		} else {
			ru.Ref = rel
			ru.Spelling = "plain"
		}
	case "symlink":
		l, _ := filepath.Rel("/"+f.Dir, "/ln/"+tg.file.Base)
		ru.Ref = l
	}
	ru.Ref += frag
	return ru, true
}

// comboSchema: {kw: [ {$ref}, {object with a cb_ marker property} ]}. The merged
// struct carries the target's marker (copied fields) and the cb_ marker, which
// tells it apart from the target's own declaration.
func (g *genCtx) comboSchema(kw, ref string) (Obj, string) {
	g.nprop++
	name := fmt.Sprintf("cb_%s_%d", g.f.Tag, g.nprop)
	cb := Obj{{"type", "object"}, {"properties", Obj{{name, Obj{{"type", "string"}}}}}}
	br := []any{Obj{{"$ref", ref}}, cb}
	if g.pct("cbfirst", 30) {
		br = []any{cb, Obj{{"$ref", ref}}}
	}
	o := Obj{}
	if g.pct("combotype2", 40) {
		o = append(o, KV{"type", "object"})
	}
	return append(o, KV{kw, br}), name
}

// mayRequire: a property that is a direct $ref is only made required in ReqCycle
// worlds (references within a file may always be mutually recursive): a cycle of required references is a schema no
// finite document satisfies, and the generator answers it with an invalid
// recursive Go type (known finding KF-C10-1).
func (g *genCtx) mayRequire(v any) bool {
	if g.feat.ReqCycle {
		return true
	}
	if o, ok := v.(Obj); ok {
		if _, isRef := o.Get("$ref"); isRef {
			return false
		}
	}
	return true
}

// isSpecial: shadow / extension-shadow files (referenced only by forced refs).
func isSpecial(f *SFile) bool {
	return strings.HasPrefix(f.Tag, "s") || strings.HasPrefix(f.Tag, "e") || strings.HasPrefix(f.Tag, "w") || strings.HasPrefix(f.Tag, "h") || strings.HasPrefix(f.Tag, "u") || strings.HasPrefix(f.Tag, "j")
}

// forcedRefs adds the discriminating references to the root struct of file f.
func (g *genCtx) forcedRefs(props Obj) Obj {
	f := g.f
	if isSpecial(f) || !f.RootObj {
		return props
	}
	addC := func(ref, toTag, toDef, sp, kw string) {
		g.nprop++
		ru := RefUse{FromTag: f.Tag, Prop: fmt.Sprintf("%sr%d", f.Tag, g.nprop), Ref: ref, ToTag: toTag, ToDef: toDef, Spelling: sp, Combo: kw}
		if kw == "" {
			props = append(props, KV{ru.Prop, Obj{{"$ref", ru.Ref}}})
		} else {
			var cs Obj
			cs, ru.CB = g.comboSchema(kw, ru.Ref)
			props = append(props, KV{ru.Prop, cs})
		}
		f.Refs = append(f.Refs, ru)
	}
	add := func(ref, toTag, toDef, sp string) { addC(ref, toTag, toDef, sp, "") }
	if g.feat.Shadow {
		for i, d := range []string{"a", "b"} {
			if f.Dir == d {
				sp := rapid.SampledFrom([]string{"./common.json", "common.json", "file://common.json"}).Draw(g.t, "shadowsp")
				kw := ""
				if g.pct("shadowcombo", 60) {
					kw = rapid.SampledFrom([]string{"allOf", "anyOf"}).Draw(g.t, "shadowkw")
				}
				if g.pct("shadowroot", 60) {
					addC(sp, fmt.Sprintf("s%d", i), "", "shadow", kw)
				} else {
					addC(fmt.Sprintf("%s#/$defs/S%dDa", sp, i), fmt.Sprintf("s%d", i), fmt.Sprintf("S%dDa", i), "shadow", kw)
				}
			}
		}
	}
	if jf := g.w.File("j0"); jf != nil && f == g.w.Files[0] {
		add(strings.TrimSuffix(jf.Base, ".json"), "j0", "", "typename")
	}
	if g.feat.UntypedRecRoot && f == g.w.Files[0] {
		if uf := g.w.File("u0"); uf != nil {
			if rel, err := filepath.Rel("/"+f.Dir, "/"+uf.Base); err == nil {
				add(rel, "u0", "", "untypedroot")
			}
		}
		if uf := g.w.File("u1"); uf != nil {
			if rel, err := filepath.Rel("/"+f.Dir, "/"+uf.Base); err == nil {
				g.nprop++
				ru := RefUse{FromTag: f.Tag, Prop: fmt.Sprintf("%sr%d", f.Tag, g.nprop), Ref: rel, ToTag: "u1", Spelling: "composedroot", Combo: "allOf", CB: "cb_u1_root"}
				props = append(props, KV{ru.Prop, Obj{{"$ref", ru.Ref}}})
				f.Refs = append(f.Refs, ru)
			}
		}
	}
	if g.feat.WebDoc && f == g.w.Files[0] {
		if hf := g.w.File("h0"); hf != nil {
			add(hf.URL, "h0", "", "http")
			add(hf.URL+"#/$defs/H0Da", "h0", "H0Da", "http")
			if g.pct("httpagain", 50) {
				add(hf.URL, "h0", "", "http")
			}
			if h1 := g.w.File("h1"); h1 != nil {
				add(h1.URL, "h1", "", "http")
				add(h1.URL+"#/$defs/H1Da", "h1", "H1Da", "http")
			}
		}
	}
	if g.feat.WeirdName && f == g.w.Files[0] {
		if wf := g.w.File("w0"); wf != nil {
			rel, err := filepath.Rel("/"+f.Dir, "/"+wf.Base)
			if err == nil {
				add(rel+"#/$defs/W0Da", "w0", "W0Da", "weirdname")
			}
		}
	}
	if g.feat.ExtShadow && f == g.w.Files[0] {
		rel, err := filepath.Rel("/"+f.Dir, "/e0f")
		if err == nil {
			first := ""
			for _, e := range g.w.Opts.ResolveExt {
				if e == ".json" || e == ".yaml" {
					first = e
					break
				}
			}
			to := "e0j"
			if first == ".yaml" {
				to = "e0y"
			}
			if g.w.File("e0n") != nil {
				to = "e0n"
			}
			add(rel+"#/$defs/E0Da", to, "E0Da", "extshadow")
		}
	}
	return props
}

// genType: a property / item schema.
func (g *genCtx) genType() any {
	g.depth++
	defer func() { g.depth-- }()
	type alt struct {
		w  int
		fn func() any
	}
	alts := []alt{{30, g.genLeaf}}
	if g.feat.Enum {
		alts = append(alts, alt{12, g.genEnum})
	}
	if g.feat.Array && g.depth <= 3 {
		alts = append(alts, alt{12, g.genArray})
	}
	if g.feat.Nested && g.depth <= 3 {
		alts = append(alts, alt{14, g.genObject})
	}
	if g.feat.AllOf && g.depth <= 2 {
		alts = append(alts, alt{8, func() any { return g.genCombo("allOf") }})
	}
	if g.feat.AnyOf && g.depth <= 2 {
		alts = append(alts, alt{8, func() any { return g.genCombo("anyOf") }})
	}
	if g.feat.LocalRef {
		alts = append(alts, alt{8, g.genLooseRef})
	}
	if g.feat.BoolSchema {
		alts = append(alts, alt{3, func() any { return true }})
	}
	if g.feat.Nullable {
		alts = append(alts, alt{6, g.genNullable})
	}
	tot := 0
	for _, a := range alts {
		tot += a.w
	}
	r := rapid.IntRange(0, tot-1).Draw(g.t, "kind")
	for _, a := range alts {
		if r < a.w {
			return a.fn()
		}
		r -= a.w
	}
	return g.genLeaf()
}

func (g *genCtx) genLeafOrEnum() any {
	if g.feat.Enum && g.pct("xenum", 50) {
		return g.genEnum()
	}
	if g.feat.Array && g.pct("xarr", 30) {
		return Obj{{"type", "array"}, {"items", g.genLeaf()}}
	}
	return g.genLeaf()
}

// longDesc wraps differently at 79 and at 80 columns: its first 16 words make a line of
// exactly 80 characters. The same text is used for types and for properties, in every
// file, so that anything that remembers how a text was wrapped the first time shows.
const longDesc = "abcd efgh ijkl mnop qrst uvwx yzab cdef ghij klmn opqr stuv wxyz abcd efgh ijklm nopq rstu vwxy zabc defg hijk lmno pqrs tuvw xyza bcde fghi jklm nopq rstu vwxy z."

func (g *genCtx) docs(o Obj) Obj {
	if g.feat.Docs && g.pct("pdesc", 25) {
		if g.pct("longdesc", 40) {
			o = append(o, KV{"description", longDesc})
		} else {
			o = append(o, KV{"description", "A described thing"})
		}
	}
	return o
}

func (g *genCtx) genLeaf() any {
	switch rapid.IntRange(0, 5).Draw(g.t, "leaf") {
	case 0, 1:
		o := Obj{{"type", "string"}}
		if g.feat.Bounds {
			if g.pct("minlen", 30) {
				o = append(o, KV{"minLength", rapid.IntRange(1, 5).Draw(g.t, "minl")})
			}
			if g.pct("maxlen", 30) {
				o = append(o, KV{"maxLength", rapid.IntRange(5, 20).Draw(g.t, "maxl")})
			}
			if g.pct("pattern", 15) {
				o = append(o, KV{"pattern", "^[a-z]+$"})
			}
		}
		if g.feat.Formats && g.pct("format", 30) {
			fm := rapid.SampledFrom([]string{"date-time", "date", "time", "ipv4", "ipv6", "duration", "email"}).Draw(g.t, "fmt")
			o = append(o, KV{"format", fm})
			if fm == "date-time" && g.feat.Defaults && g.pct("dtdefault", 50) {
				// a default with a numeric zone offset: how it is rendered must not depend on the zone the tool runs in
				o = append(o, KV{"default", rapid.SampledFrom([]string{"2021-06-15T12:00:00+09:00", "2021-06-15T12:00:00+02:00", "2021-06-15T12:00:00-04:00", "2021-01-15T08:30:00Z"}).Draw(g.t, "dtdef")})
			}
		} else if g.feat.Defaults && g.pct("sdef", 30) {
			o = append(o, KV{"default", "dflt"})
		}
		return g.docs(o)
	case 2:
		o := Obj{{"type", "integer"}}
		if g.feat.Bounds {
			lo := rapid.SampledFrom([]int{0, 1, -5, -200, -40000, 10}).Draw(g.t, "ilo")
			hi := lo + rapid.SampledFrom([]int{1, 10, 100, 300, 70000, 5000000000}).Draw(g.t, "ispan")
			if g.pct("imin", 50) {
				if g.pct("iexmin", 25) {
					o = append(o, KV{"exclusiveMinimum", lo})
				} else {
					o = append(o, KV{"minimum", lo})
				}
			}
			if g.pct("imax", 50) {
				if g.pct("iexmax", 25) {
					o = append(o, KV{"exclusiveMaximum", hi})
				} else {
					o = append(o, KV{"maximum", hi})
				}
			}
			if g.pct("imul", 15) {
				o = append(o, KV{"multipleOf", rapid.IntRange(2, 5).Draw(g.t, "imulv")})
			}
		}
		if g.feat.Defaults && g.pct("idef", 25) {
			o = append(o, KV{"default", 7})
		}
		return g.docs(o)
	case 3:
		o := Obj{{"type", "number"}}
		if g.feat.Bounds {
			if g.pct("nmin", 35) {
				o = append(o, KV{"minimum", 0.5})
			}
			if g.pct("nmax", 35) {
				if !g.f.YAML && g.pct("expform", 40) {
					// exponent form without a fraction, as encoding/json and JSON.stringify print large and small
					// values: a number in JSON (a string for some YAML readers)
					o = append(o, KV{"maximum", RawJSON(rapid.SampledFrom([]string{"1e3", "1e+21", "2.5e2", "1E3"}).Draw(g.t, "expnum"))})
				} else {
					o = append(o, KV{"maximum", 99.5})
				}
			}
			if g.pct("nmul", 15) {
				o = append(o, KV{"multipleOf", 0.5})
			}
		}
		if g.feat.Defaults && g.pct("ndef", 25) {
			o = append(o, KV{"default", 1.5})
		}
		return g.docs(o)
	case 4:
		o := Obj{{"type", "boolean"}}
		if g.feat.Defaults && g.pct("bdef", 30) {
			o = append(o, KV{"default", true})
		}
		return o
	default:
		if g.pct("nulltype", 30) {
			return Obj{{"type", "null"}}
		}
		return Obj{{"type", "string"}}
	}
}

func (g *genCtx) genNullable() any {
	base := rapid.SampledFrom([]string{"string", "integer", "number", "boolean"}).Draw(g.t, "nullbase")
	if g.pct("nullfirst", 50) {
		return Obj{{"type", []any{"null", base}}}
	}
	return Obj{{"type", []any{base, "null"}}}
}

func (g *genCtx) genEnum() any {
	switch rapid.IntRange(0, 3).Draw(g.t, "enumkind") {
	case 0:
		n := rapid.IntRange(1, 4).Draw(g.t, "nenum")
		vals := []any{}
		for i := 0; i < n; i++ {
			vals = append(vals, []string{"red", "green", "blue", "dark-grey"}[i])
		}
		o := Obj{{"type", "string"}, {"enum", vals}}
		if g.feat.Defaults && g.pct("edef", 25) {
			o = append(o, KV{"default", "red"})
		}
		return o
	case 1:
		n := rapid.IntRange(1, 4).Draw(g.t, "nenum")
		vals := []any{}
		for i := 0; i < n; i++ {
			vals = append(vals, []int{1, 2, 3, 5}[i])
		}
		return Obj{{"type", "integer"}, {"enum", vals}}
	case 2:
		return Obj{{"enum", []any{"x", 1, true, nil}}}
	default:
		if SelfNamedDefs && g.pct("symbolenum", 30) { // C12 worlds only: today they all become "...Undefined", declared several times
			// values made of punctuation only: their constant names come from a table of special cases
			return Obj{{"type", "string"}, {"enum", []any{"<", "<=", ">=", "==", "&&", "||", "<>", "!=", "*"}}}
		}
		return Obj{{"enum", []any{"one", "two"}}}
	}
}

func (g *genCtx) genArray() any {
	o := Obj{{"type", "array"}, {"items", g.genType()}}
	if g.feat.Bounds {
		if g.pct("minitems", 30) {
			o = append(o, KV{"minItems", rapid.IntRange(1, 3).Draw(g.t, "mini")})
		}
		if g.pct("maxitems", 30) {
			o = append(o, KV{"maxItems", rapid.IntRange(3, 9).Draw(g.t, "maxi")})
		}
	}
	return o
}

func (g *genCtx) genObject() any {
	np := rapid.IntRange(0, 4).Draw(g.t, "nnprops")
	props := Obj{}
	var required []any
	for i := 0; i < np; i++ {
		name := g.newProp()
		if g.feat.OddKeys && g.pct("oddkey", 20) {
			name = rapid.SampledFrom([]string{"7", "with space", "kebab-case-" + g.f.Tag, "UPPER", "id", "url_" + g.f.Tag}).Draw(g.t, "oddname")
			if _, dup := props.Get(name); dup {
				name = g.newProp()
			}
		}
		pv := g.genType()
		props = append(props, KV{name, pv})
		if g.pct("nreq", 30) && g.mayRequire(pv) {
			required = append(required, name)
		}
	}
	if g.feat.Twins && g.pct("proptwins", 30) {
		props = append(props, KV{"tw_" + g.f.Tag, Obj{{"type", "string"}}}, KV{"tw-" + g.f.Tag, Obj{{"type", "integer"}}})
	}
	o := Obj{{"type", "object"}}
	if len(props) > 0 || g.pct("emptyprops", 50) {
		o = append(o, KV{"properties", props})
	}
	if len(required) > 0 {
		o = append(o, KV{"required", required})
	}
	if g.feat.AddlProps && g.pct("naddl", 25) {
		o = append(o, KV{"additionalProperties", g.genAddl()})
	}
	return g.docs(o)
}

// genCombo: allOf / anyOf with object branches, some of them local refs.
func (g *genCtx) genCombo(kw string) any {
	n := rapid.IntRange(1, 3).Draw(g.t, "nbranch")
	var br []any
	for i := 0; i < n; i++ {
		lo := g.curDef + 1
		if g.feat.RecCombo {
			lo = 0
		}
		if g.feat.LocalRef && !g.feat.PlainMarkers && len(g.f.Defs) > lo && g.pct("branchref", 35) {
			d := g.f.Defs[rapid.IntRange(lo, len(g.f.Defs)-1).Draw(g.t, "branchdef")]
			br = append(br, Obj{{"$ref", g.localFrag(d)}})
			continue
		}
		if kw == "anyOf" && g.pct("primbranch", 20) {
			br = append(br, Obj{{"type", rapid.SampledFrom([]string{"string", "integer", "boolean"}).Draw(g.t, "primb")}})
			continue
		}
		// object branch with 1..3 properties (names may overlap between
		// branches: that is what makes the merge order-sensitive)
		np := rapid.IntRange(1, 3).Draw(g.t, "nbprops")
		props := Obj{}
		var req []any
		for j := 0; j < np; j++ {
			name := fmt.Sprintf("%sb%d", g.f.Tag, rapid.IntRange(1, 4).Draw(g.t, "bname"))
			if _, dup := props.Get(name); dup {
				continue
			}
			old := g.depth
			g.depth = 3
			props = append(props, KV{name, g.genLeaf()})
			g.depth = old
			if g.pct("breq", 30) {
				req = append(req, name)
			}
		}
		b := Obj{{"type", "object"}, {"properties", props}}
		if len(req) > 0 {
			b = append(b, KV{"required", req})
		}
		br = append(br, b)
	}
	o := Obj{}
	if g.pct("combotype", 40) {
		o = append(o, KV{"type", "object"})
	}
	o = append(o, KV{kw, br})
	return o
}

func (g *genCtx) localFrag(d string) string {
	// the file's own definitions keyword is decided in genDoc; both spellings
	// resolve against Definitions, so either is legal
	if !g.f.BothDefs && g.pct("legacyfrag", 30) {
		return "#/definitions/" + d
	}
	return "#/$defs/" + d
}

// genLooseRef: a ref to a local definition from anywhere (not attributed).
func (g *genCtx) genLooseRef() any {
	if len(g.f.Defs) == 0 {
		return g.genLeaf()
	}
	d := g.f.Defs[rapid.IntRange(0, len(g.f.Defs)-1).Draw(g.t, "loosedef")]
	return Obj{{"$ref", g.localFrag(d)}}
}

// Tags returns the sorted tags of the world.
func (w *World) Tags() []string {
	var ts []string
	for _, f := range w.Files {
		ts = append(ts, f.Tag)
	}
	sort.Strings(ts)
	return ts
}
