package sim

import (
	"io/fs"
	"os"
	"path/filepath"
	"sort"
	"strings"
	"sync"

	"pgregory.net/rapid"

	"verifsim/simrt"
)

// The golden schemas of the repository's own test suite serve as a second,
// hand-written source of worlds (keywords and shapes the generator does not
// produce: goJSONSchema extensions, formats, deep nesting, real-world naming).

type corpusFile struct {
	rel  string // relative to tests/data
	data []byte
	doc  Obj // parsed (JSON files only)
}

var (
	corpusOnce  sync.Once
	corpusFiles []corpusFile
)

func loadCorpus() {
	root := filepath.Join(RepoDir(), "tests", "data")
	_ = filepath.WalkDir(root, func(p string, d fs.DirEntry, err error) error {
		if err != nil || d.IsDir() {
			return nil
		}
		ext := filepath.Ext(p)
		if ext != ".json" && ext != ".yaml" && ext != ".yml" {
			return nil
		}
		b, err := os.ReadFile(p)
		if err != nil || len(b) > 64<<10 {
			return nil
		}
		rel, _ := filepath.Rel(root, p)
		cf := corpusFile{rel: rel, data: b}
		if ext == ".json" {
			if v, err := ParseOrdered(b); err == nil {
				if o, ok := v.(Obj); ok {
					cf.doc = o
				}
			}
		}
		corpusFiles = append(corpusFiles, cf)
		return nil
	})
	sort.Slice(corpusFiles, func(i, j int) bool { return corpusFiles[i].rel < corpusFiles[j].rel })
}

// GenCorpusWorld picks 1-2 golden schemas as arguments; the whole golden tree is
// present so that their file refs resolve.
func GenCorpusWorld(t *rapid.T) (*World, []string) {
	corpusOnce.Do(loadCorpus)
	if len(corpusFiles) == 0 {
		return nil, nil
	}
	w := &World{Root: "/w", Cwd: "/w"}
	for i, cf := range corpusFiles {
		if cf.doc != nil {
			w.Files = append(w.Files, &SFile{Tag: "g" + itoa(i), Dir: filepath.Join("data", filepath.Dir(cf.rel)), Base: filepath.Base(cf.rel), Doc: cf.doc})
		} else {
			w.Extra = append(w.Extra, simrt.Node{Path: filepath.Join("/w/data", cf.rel), Kind: "f", Data: cf.data})
		}
	}
	n := rapid.IntRange(1, 2).Draw(t, "ncorpus")
	var args []string
	for i := 0; i < n; i++ {
		cf := corpusFiles[rapid.IntRange(0, len(corpusFiles)-1).Draw(t, "corpusfile")]
		if strings.Contains(cf.rel, "FAIL") {
			continue
		}
		a := filepath.Join("data", cf.rel)
		dup := false
		for _, x := range args {
			if x == a {
				dup = true
			}
		}
		if !dup {
			args = append(args, a)
		}
	}
	if len(args) == 0 {
		return nil, nil
	}
	b := func(name string, pct int) bool { return rapid.IntRange(0, 99).Draw(t, "co:"+name) < pct }
	w.Opts = Options{Package: "github.com/example/test", ResolveExt: []string{".json", ".yaml"}, YAMLExt: []string{".yaml", ".yml"},
		Extra: b("extra", 70), MinSized: b("minsized", 30), OnlyModels: b("onlymodels", 15), TitleNames: b("title", 20)}
	if b("caps", 20) {
		w.Opts.Caps = []string{"ID", "URL", "HtMl"}
	}
	if b("tags", 20) {
		w.Opts.Tags = []string{"yaml"}
	}
	if b("outfile", 40) {
		w.Opts.Output = "out/gen.go"
	}
	w.Feat = Feat{}
	return w, args
}

func itoa(i int) string {
	if i == 0 {
		return "0"
	}
	s := ""
	for i > 0 {
		s = string(rune('0'+i%10)) + s
		i /= 10
	}
	return s
}
