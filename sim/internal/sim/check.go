package sim

import (
	"bytes"
	"crypto/sha256"
	"encoding/binary"
	"encoding/json"
	"flag"
	"fmt"
	"os"
	"os/exec"
	"path/filepath"
	"sort"
	"strings"
	"time"

	"pgregory.net/rapid"

	"verifsim/simrt"
)

// Discrepancy is one oracle finding inside a case. Sig is built from observable
// features only (never from seeds), so that known findings can be matched.
type Discrepancy struct {
	Sig    string `json:"sig"`
	Detail string `json:"detail"`
	Runs   []int  `json:"runs,omitempty"`
}

// Case is a fully explicit, self-contained experiment: the runs and whatever
// the oracle needs to judge them.
type Case struct {
	Prop string          `json:"property"`
	Runs []Run           `json:"runs"`
	Meta json.RawMessage `json:"meta,omitempty"`
}

// Replay is the replay file format.
type Replay struct {
	Property  string   `json:"property"`
	Signature string   `json:"signature"`
	Detail    string   `json:"detail"`
	Seed      uint64   `json:"seed"`
	Shard     int      `json:"shard"`
	Tier      string   `json:"tier"`
	Hashes    []string `json:"run_hashes"` // result+trace hash of every run when the violation was observed
	Case      Case     `json:"case"`
}

// Property is one claimed property.
type Property interface {
	ID() string
	Level() string
	Rule() string
	// Gen draws one case and executes its runs (generation is two-phase: the
	// reference run's trace decides where schedules and faults can land).
	Gen(t *rapid.T, env *Env) (*Case, []*Out)
	// Eval is the oracle: a pure function of the case and the observed runs.
	Eval(c *Case, outs []*Out) []Discrepancy
	// Nontrivial reports whether the executed case counts as non-trivial.
	Nontrivial(c *Case, outs []*Out) bool
}

var Properties = map[string]Property{}

// ---- known findings ------------------------------------------------------------

type KnownFinding struct {
	Property  string `json:"property"`
	Signature string `json:"signature"` // exact signature, or prefix when it ends with '*'
	What      string `json:"what"`
	Example   string `json:"example,omitempty"`
}

type KnownFile struct {
	Known []KnownFinding `json:"known_findings"`
	Fixed []string       `json:"fixed"`
}

func LoadKnown() []KnownFinding {
	b, err := os.ReadFile(filepath.Join(VerifDir(), "known_findings.json"))
	if err != nil {
		return nil
	}
	var kf KnownFile
	if err := json.Unmarshal(b, &kf); err != nil {
		fmt.Fprintln(os.Stderr, "simcheck: known_findings.json unreadable:", err)
		os.Exit(2)
	}
	return kf.Known
}

func matchKnown(kn []KnownFinding, prop, sig string) *KnownFinding {
	for i := range kn {
		k := &kn[i]
		if k.Property != prop {
			continue
		}
		if k.Signature == sig {
			return k
		}
		if strings.HasSuffix(k.Signature, "*") && strings.HasPrefix(sig, strings.TrimSuffix(k.Signature, "*")) {
			return k
		}
	}
	return nil
}

// ---- environment and statistics ------------------------------------------------------

type Env struct {
	Bins     *Bins
	Tier     string
	Seed     uint64
	Shard    int
	Deadline time.Time
	Known    []KnownFinding
	Stats    *Stats
	Budget   int  // cases per shard
	Census   bool // count every discrepancy signature, never fail (triage aid)
}

func (e *Env) Thorough() bool { return e.Tier == "thorough" }

// Exec runs one simulated process and feeds the statistics.
func (e *Env) Exec(spec *simrt.Spec) *Out { return e.ExecProcs(spec, "") }

// ExecProcs is Exec at a given GOMAXPROCS. A watchdog expiry is re-executed twice:
// only a run that overruns the wall clock three times in a row counts as a hang
// (ordinary runs take milliseconds; a single expiry under load is not a verdict).
func (e *Env) ExecProcs(spec *simrt.Spec, procs string) *Out {
	o, retries := execRobust(e.Bins.Sim, spec, procs)
	e.Stats.Counters["watchdog_retries"] += retries
	e.Stats.note(spec, o)
	return o
}

// execRobust: a watchdog timeout, or a death that left neither a result record nor a Go runtime message (killed
// from outside), may be the machine's doing: only a death that repeats three times is the program's.
func execRobust(bin string, spec *simrt.Spec, procs string) (*Out, int) {
	o := Exec(bin, spec, procs)
	n := 0
	for ; n < 2 && (o.TimedOut || (!o.HasRes && o.Fatal() == "died")); n++ {
		o = Exec(bin, spec, procs)
	}
	return o, n
}

type Stats struct {
	Cases          int            `json:"cases"`
	Runs           int            `json:"runs"`
	SimSteps       int            `json:"sim_io_steps"`
	MapEvents      int            `json:"map_events"`
	Nontrivial     []string       `json:"nontrivial_hashes"` // distinct hashes of non-trivial cases
	FaultsConf     map[string]int `json:"faults_configured"`
	FaultsFired    map[string]int `json:"faults_fired"`
	FaultOps       map[string]int `json:"fault_ops"`          // op kind on which a fault fired
	MapSites       map[string]int `json:"map_sites_permuted"` // site -> events with non-identity order
	Schedules      []string       `json:"schedule_hashes"`    // distinct non-identity schedules
	FeatVectors    []string       `json:"feature_vectors"`
	Probes         map[string]int `json:"probes"`
	ExitCodes      map[string]int `json:"exit_codes"`
	KnownHit       map[string]int `json:"known_findings_hit"`
	Counters       map[string]int `json:"counters"`
	Samples        []any          `json:"samples"`
	SelfTestRuns   int            `json:"selftest_runs"`
	SelfTestMism   int            `json:"selftest_mismatches"`
	FidelityWorlds int            `json:"fidelity_worlds"`
	FidelityMism   int            `json:"fidelity_mismatches"`
	FidelityMsgs   []string       `json:"fidelity_messages,omitempty"`
	Violations     []Replay       `json:"violations"`
	WallS          float64        `json:"wall_s"`
	nt             map[string]bool
	sch            map[string]bool
	fv             map[string]bool
}

func NewStats() *Stats {
	return &Stats{FaultsConf: map[string]int{}, FaultsFired: map[string]int{}, FaultOps: map[string]int{}, MapSites: map[string]int{},
		Probes: map[string]int{}, ExitCodes: map[string]int{}, KnownHit: map[string]int{}, Counters: map[string]int{},
		nt: map[string]bool{}, sch: map[string]bool{}, fv: map[string]bool{}}
}

func (s *Stats) note(spec *simrt.Spec, o *Out) {
	s.Runs++
	switch {
	case o.Wall > time.Second:
		s.Counters["runs_over_1s"]++
		DebugDump("slow", spec, o)
	case o.Wall > 100*time.Millisecond:
		s.Counters["runs_over_100ms"]++
	case o.Wall > 20*time.Millisecond:
		s.Counters["runs_over_20ms"]++
	}
	s.Counters["run_wall_ms_total"] += int(o.Wall / time.Millisecond)
	if !o.HasRes {
		s.ExitCodes["no-result"]++
		return
	}
	s.SimSteps += o.Res.Steps
	if !o.Res.Overrun && o.Res.Ticks > s.Counters["max_ticks_in_a_run"] {
		s.Counters["max_ticks_in_a_run"] = o.Res.Ticks
	}
	s.MapEvents += o.Res.MapEvents
	s.ExitCodes[fmt.Sprint(o.Res.Exit)]++
	for _, f := range spec.Faults {
		s.FaultsConf[f.Kind]++
	}
	for _, f := range o.Res.Fired {
		if !f.Misfit {
			s.FaultsFired[f.Fault.Kind]++
			s.FaultOps[f.Op]++
		}
	}
	var sched []string
	for _, m := range o.Res.Maps {
		if m.Perm {
			s.MapSites[m.Site]++
			sched = append(sched, fmt.Sprintf("%s/%d/%d", m.Site, m.N, m.Idx))
		}
	}
	if len(sched) > 0 {
		h := shortHash(fmt.Sprint(sched, spec.MapDefault, spec.MapOrders))
		if !s.sch[h] {
			s.sch[h] = true
			s.Schedules = append(s.Schedules, h)
		}
	}
	for k, v := range o.Res.Probes {
		s.Probes[k] += v
	}
}

func (s *Stats) NoteNontrivial(h string) {
	if !s.nt[h] {
		s.nt[h] = true
		s.Nontrivial = append(s.Nontrivial, h)
	}
}

func (s *Stats) NoteFeat(f any) {
	h := fmt.Sprint(f)
	if !s.fv[h] {
		s.fv[h] = true
		s.FeatVectors = append(s.FeatVectors, h)
	}
}

func shortHash(s string) string {
	h := sha256.Sum256([]byte(s))
	return fmt.Sprintf("%016x", binary.BigEndian.Uint64(h[:8]))
}

func caseHash(c *Case) string {
	b, _ := json.Marshal(c.Runs)
	return shortHash(string(b))
}

// ---- shard loop ---------------------------------------------------------------------------

type simTB struct {
	failed bool
	logs   bytes.Buffer
}

func (t *simTB) Helper()                          {}
func (t *simTB) Name() string                     { return "simcheck" }
func (t *simTB) Logf(format string, args ...any)  { fmt.Fprintf(&t.logs, format+"\n", args...) }
func (t *simTB) Log(args ...any)                  { fmt.Fprintln(&t.logs, args...) }
func (t *simTB) Skipf(format string, args ...any) {}
func (t *simTB) Skip(args ...any)                 {}
func (t *simTB) SkipNow()                         {}
func (t *simTB) Errorf(format string, args ...any) {
	t.failed = true
	fmt.Fprintf(&t.logs, format+"\n", args...)
}
func (t *simTB) Error(args ...any) { t.failed = true; fmt.Fprintln(&t.logs, args...) }
func (t *simTB) Fatalf(format string, args ...any) {
	t.failed = true
	fmt.Fprintf(&t.logs, format+"\n", args...)
}
func (t *simTB) Fatal(args ...any) { t.failed = true; fmt.Fprintln(&t.logs, args...) }
func (t *simTB) FailNow()          { t.failed = true }
func (t *simTB) Fail()             { t.failed = true }
func (t *simTB) Failed() bool      { return t.failed }

// RunShard explores one shard: rapid draws cases until the budget or deadline
// is reached; the first unknown discrepancy is shrunk and recorded.
// Batterer is implemented by properties that have a fixed, seed-independent
// catalogue of cases to run before the seeded search (shard 0 only).
type Batterer interface {
	Battery(env *Env) (*Case, []*Out)
	Slice(c *Case, idx []int) *Case
}

// MultiBatterer: several fixed cases instead of one (each is reported whole).
type MultiBatterer interface {
	Batteries(env *Env) ([]*Case, [][]*Out)
}

func runBatteries(p Property, mb MultiBatterer, env *Env, reported map[string]bool) {
	cs, os := mb.Batteries(env)
	for i, c := range cs {
		env.Stats.Cases++
		env.Stats.NoteNontrivial(caseHash(c))
		for _, d := range p.Eval(c, os[i]) {
			if env.Census {
				env.Stats.Counters["sig:"+d.Sig]++
				continue
			}
			if k := matchKnown(env.Known, p.ID(), d.Sig); k != nil {
				env.Stats.KnownHit[k.Signature]++
				continue
			}
			if reported[d.Sig] {
				continue
			}
			reported[d.Sig] = true
			r := Replay{Property: p.ID(), Signature: d.Sig, Detail: d.Detail + " [fixed battery world]", Seed: env.Seed, Shard: env.Shard, Tier: env.Tier, Case: *c}
			for _, o := range os[i] {
				r.Hashes = append(r.Hashes, o.Hash(true))
			}
			env.Stats.Violations = append(env.Stats.Violations, r)
		}
	}
}

func runBattery(p Property, b Batterer, env *Env, reported map[string]bool) {
	c, outs := b.Battery(env)
	if c == nil {
		return
	}
	env.Stats.Cases++
	env.Stats.NoteNontrivial(caseHash(c))
	for _, d := range p.Eval(c, outs) {
		if env.Census {
			env.Stats.Counters["sig:"+d.Sig]++
			continue
		}
		if k := matchKnown(env.Known, p.ID(), d.Sig); k != nil {
			env.Stats.KnownHit[k.Signature]++
			continue
		}
		if reported[d.Sig] {
			continue
		}
		reported[d.Sig] = true
		idx := []int{0}
		for _, i := range d.Runs {
			if i != 0 {
				idx = append(idx, i)
			}
		}
		sc := b.Slice(c, idx)
		so := make([]*Out, len(idx))
		for k, i := range idx {
			so[k] = outs[i]
		}
		// the sliced case must show the same discrepancy (detail text refers to new indices)
		det := d.Detail
		for _, d2 := range p.Eval(sc, so) {
			if d2.Sig == d.Sig {
				det = d2.Detail
			}
		}
		r := Replay{Property: p.ID(), Signature: d.Sig, Detail: det + " [catalogue battery]", Seed: env.Seed, Shard: env.Shard, Tier: env.Tier, Case: *sc}
		for _, o := range so {
			r.Hashes = append(r.Hashes, o.Hash(true))
		}
		env.Stats.Violations = append(env.Stats.Violations, r)
	}
}

func RunShard(p Property, env *Env) {
	start := time.Now()
	reported := map[string]bool{} // signatures already minimised and recorded by this shard
	if b, ok := p.(Batterer); ok && env.Shard == 0 {
		runBattery(p, b, env, reported)
	}
	if mb, ok := p.(MultiBatterer); ok && env.Shard == 0 {
		runBatteries(p, mb, env, reported)
	}
	for round := 0; round < maxRounds(env); round++ {
		target := "" // signature being minimised
		var last *Replay
		prop := func(t *rapid.T) {
			if target == "" && (time.Now().After(env.Deadline) || env.Stats.Cases >= env.Budget) {
				return
			}
			c, outs := p.Gen(t, env)
			if c == nil {
				return
			}
			if target == "" {
				env.Stats.Cases++
				if p.Nontrivial(c, outs) {
					env.Stats.NoteNontrivial(caseHash(c))
				}
				if len(env.Stats.Samples) < 2 && len(c.Runs) > 0 {
					env.Stats.Samples = append(env.Stats.Samples, sampleOf(c, outs))
				}
			}
			ds := p.Eval(c, outs)
			if env.Census {
				for _, d := range ds {
					env.Stats.Counters["sig:"+d.Sig]++
					if env.Stats.Counters["sig:"+d.Sig] == 1 && os.Getenv("VERIF_DEBUG_DIR") != "" {
						r := &Replay{Property: p.ID(), Signature: d.Sig, Detail: d.Detail, Seed: env.Seed, Shard: env.Shard, Tier: env.Tier, Case: *c}
						b, _ := json.MarshalIndent(r, "", " ")
						_ = os.MkdirAll(os.Getenv("VERIF_DEBUG_DIR"), 0o755)
						_ = os.WriteFile(filepath.Join(os.Getenv("VERIF_DEBUG_DIR"), "census-"+shortHash(d.Sig)+".json"), b, 0o644)
					}
				}
				return
			}
			for _, d := range ds {
				if k := matchKnown(env.Known, p.ID(), d.Sig); k != nil {
					if target == "" {
						env.Stats.KnownHit[k.Signature]++
					}
					continue
				}
				if reported[d.Sig] {
					continue
				}
				if target == "" {
					target = d.Sig
				}
				if d.Sig == target {
					r := &Replay{Property: p.ID(), Signature: d.Sig, Detail: d.Detail, Seed: env.Seed, Shard: env.Shard, Tier: env.Tier, Case: *c}
					for _, o := range outs {
						r.Hashes = append(r.Hashes, o.Hash(true))
					}
					last = r
					t.Fatalf("%s", target)
				}
			}
		}
		tb := &simTB{}
		if round > 0 {
			_ = flag.Set("rapid.seed", fmt.Sprint(env.Seed*64+uint64(env.Shard)+1+uint64(round)*1000003))
			remaining := env.Budget - env.Stats.Cases
			if remaining < 1 {
				break
			}
			_ = flag.Set("rapid.checks", fmt.Sprint(remaining))
		}
		rapid.Check(tb, prop)
		if last != nil {
			env.Stats.Violations = append(env.Stats.Violations, *last)
			reported[last.Signature] = true
		} else if tb.failed {
			// rapid itself complained (e.g. could not generate): harness problem
			fmt.Fprintln(os.Stderr, "simcheck: rapid reported a failure without a violation:\n"+tb.logs.String())
			env.Stats.Counters["rapid_harness_failure"]++
		}
		// another round only after a violation, to look for different ones in the time left
		if last == nil || time.Now().After(env.Deadline) || env.Stats.Cases >= env.Budget {
			break
		}
	}
	env.Stats.WallS = time.Since(start).Seconds()
}

func sampleOf(c *Case, outs []*Out) any {
	type runS struct {
		Label  string   `json:"label"`
		Args   []string `json:"args"`
		Cwd    string   `json:"cwd"`
		Files  []string `json:"files"`
		MapDef string   `json:"map_default,omitempty"`
		Orders int      `json:"explicit_map_orders,omitempty"`
		Chunks []int    `json:"chunks,omitempty"`
		Faults any      `json:"faults,omitempty"`
		Exit   int      `json:"exit"`
		Steps  int      `json:"io_steps"`
		MapEv  int      `json:"map_events"`
	}
	var rs []runS
	for i, r := range c.Runs {
		if i >= 4 {
			break
		}
		s := runS{Label: r.Label, Args: r.Spec.Args, Cwd: r.Spec.Cwd, MapDef: r.Spec.MapDefault, Orders: len(r.Spec.MapOrders), Chunks: r.Spec.Chunks}
		if len(r.Spec.Faults) > 0 {
			s.Faults = r.Spec.Faults
		}
		for _, n := range r.Spec.FS {
			if n.Kind == "f" {
				s.Files = append(s.Files, fmt.Sprintf("%s (%d bytes)", n.Path, len(n.Data)))
			}
		}
		if i < len(outs) && outs[i] != nil {
			s.Exit, s.Steps, s.MapEv = outs[i].Res.Exit, outs[i].Res.Steps, outs[i].Res.MapEvents
		}
		rs = append(rs, s)
	}
	first := ""
	if len(c.Runs) > 0 {
		for _, n := range c.Runs[0].Spec.FS {
			if n.Kind == "f" && len(n.Data) < 1500 {
				first = n.Path + ":\n" + string(n.Data)
				break
			}
		}
	}
	return map[string]any{"runs_total": len(c.Runs), "runs": rs, "first_schema": first}
}

// ---- replay ----------------------------------------------------------------------------------

// ReplayFile re-executes a replay file against the current tree and reports
// whether the recorded violation reproduces (same signature) and whether the
// execution is identical (same run hashes).
func ReplayFile(path string, bins *Bins) (reproduced bool, identical bool, ds []Discrepancy, err error) {
	b, err := os.ReadFile(path)
	if err != nil {
		return false, false, nil, err
	}
	var r Replay
	if err := json.Unmarshal(b, &r); err != nil {
		return false, false, nil, err
	}
	p, ok := Properties[r.Property]
	if !ok {
		return false, false, nil, fmt.Errorf("unknown property %q", r.Property)
	}
	attempts := 1
	if strings.Contains(r.Signature, "unmodelled-source") {
		attempts = 25 // a source the simulator does not own replays only statistically
	}
	for a := 0; a < attempts && !reproduced; a++ {
		outs := make([]*Out, len(r.Case.Runs))
		identical = true
		for i := range r.Case.Runs {
			outs[i], _ = execRobust(bins.Sim, &r.Case.Runs[i].Spec, r.Case.Runs[i].Procs)
			if i < len(r.Hashes) && outs[i].Hash(true) != r.Hashes[i] {
				identical = false
			}
		}
		ds = p.Eval(&r.Case, outs)
		for _, d := range ds {
			if d.Sig == r.Signature {
				reproduced = true
			}
		}
	}
	return
}

// ---- determinism self-test and fidelity cross-check ----------------------------------------------

// SelfTest re-executes specs at several GOMAXPROCS values and compares the full
// result+trace hash. Returns (runs, mismatching specs with equal outputs,
// mismatching specs with different outputs).
// SelfTestTransient counts differences between identical-spec runs that did not repeat (see SelfTest).
var SelfTestTransient int

func SelfTest(bins *Bins, specs []simrt.Spec, reps int) (int, int, []int) {
	runs, traceMism := 0, 0
	var outMism []int
	procs := []string{"1", "4", "16"}
	for i := range specs {
		var h0, o0 string
		for r := 0; r < reps; r++ {
			o, _ := execRobust(bins.Sim, &specs[i], procs[r%len(procs)])
			runs++
			h, oh := o.Hash(true), o.Hash(false)
			if r == 0 {
				h0, o0 = h, oh
				continue
			}
			if oh != o0 || h != h0 {
				// confirm before it counts: the same spec four more times, one after the other. A difference that does
				// not show again among them (all four equal the first run) was made by the machine, not by the program -
				// a simulated process starved until the watchdog fired while several batches were running (thorough tier,
				// seed 52: 1 run in 9 212). It is counted and reported as selftest_transient, never silently dropped.
				again := false
				for k := 0; k < 4; k++ {
					oc, _ := execRobust(bins.Sim, &specs[i], "1")
					runs++
					if oc.Hash(true) != h0 {
						again = true
					}
				}
				if !again {
					SelfTestTransient++
					continue
				}
				if oh != o0 {
					outMism = append(outMism, i)
				} else {
					traceMism++
				}
				break
			}
		}
	}
	return runs, traceMism, outMism
}

// Fidelity compares the instrumented binary on the simulated file system with
// the untouched binary on a real directory holding the same world (rendered at
// prefix = that directory). Returns "" if they agree.
func Fidelity(bins *Bins, w *World, args []string) string {
	dir, err := os.MkdirTemp("", "verif-fid-")
	if err != nil {
		return "mkdtemp: " + err.Error()
	}
	defer os.RemoveAll(dir)
	spec := w.Spec(dir, nil, args)
	for _, n := range spec.FS {
		switch n.Kind {
		case "d":
			_ = os.MkdirAll(n.Path, 0o755)
		case "l":
			_ = os.MkdirAll(filepath.Dir(n.Path), 0o755)
			_ = os.Symlink(n.Target, n.Path)
		default:
			_ = os.MkdirAll(filepath.Dir(n.Path), 0o755)
			_ = os.WriteFile(n.Path, n.Data, 0o644)
		}
	}
	_ = os.MkdirAll(spec.Cwd, 0o755)
	so, _ := execRobust(bins.Sim, &spec, "")
	cmd := exec.Command(bins.Real, spec.Args...)
	cmd.Dir = spec.Cwd
	cmd.Stdin = bytes.NewReader(spec.Stdin)
	var ro, re bytes.Buffer
	cmd.Stdout, cmd.Stderr = &ro, &re
	cmd.Env = []string{"PATH=/nonexistent"}
	rexit := 0
	if err := cmd.Run(); err != nil {
		if ee, ok := err.(*exec.ExitError); ok {
			rexit = ee.ExitCode()
		} else {
			return "real binary: " + err.Error()
		}
	}
	if !so.HasRes {
		return "sim run produced no result record: " + string(so.Stderr)
	}
	if so.Res.Exit != rexit {
		return fmt.Sprintf("exit differs: sim=%d real=%d (sim stderr %q, real stderr %q)", so.Res.Exit, rexit, clip(so.Stderr), clip(re.Bytes()))
	}
	// what was written is compared - unless both runs failed: a run that fails while it writes leaves the outputs written so far, and the
	// untouched binary writes them in Go's map order (the simulated one in sorted order unless told otherwise): which
	// subset exists then is the program's own randomness, not a difference between the two builds (thorough tier, seed
	// 51: a world whose nested mapped output cannot be created fails after the default output was written - in half the
	// processes)
	if so.Res.Exit != 0 && rexit != 0 {
		return ""
	}
	if !bytes.Equal(so.Stdout, ro.Bytes()) {
		return "stdout differs"
	}
	if (len(so.Stderr) == 0) != (re.Len() == 0) {
		return fmt.Sprintf("stderr emptiness differs: sim %q real %q", clip(so.Stderr), clip(re.Bytes()))
	}
	// files
	simFiles := so.FilesAfter()
	realFiles := map[string][]byte{}
	_ = filepath.Walk(dir, func(p string, info os.FileInfo, err error) error {
		if err == nil && info.Mode().IsRegular() {
			b, _ := os.ReadFile(p)
			realFiles[p] = b
		}
		return nil
	})
	var names []string
	for p := range simFiles {
		names = append(names, p)
	}
	for p := range realFiles {
		if _, ok := simFiles[p]; !ok {
			names = append(names, p)
		}
	}
	sort.Strings(names)
	for _, p := range names {
		a, okA := simFiles[p]
		b, okB := realFiles[p]
		if !strings.HasPrefix(p, dir) {
			continue
		}
		if okA != okB {
			return fmt.Sprintf("file %s: sim has=%v real has=%v", strings.TrimPrefix(p, dir), okA, okB)
		}
		if !bytes.Equal(a, b) {
			return fmt.Sprintf("file %s differs", strings.TrimPrefix(p, dir))
		}
	}
	return ""
}

func clip(b []byte) string {
	s := string(b)
	if len(s) > 300 {
		s = s[:300] + "..."
	}
	return s
}

// sampleChecks runs the fidelity cross-check and the determinism self-test on a
// sample of the cases of this shard (quick: first 2 cases, thorough: first 32).
func (e *Env) sampleChecks(w *World, args []string, c *Case) {
	limit := 2
	reps := 3
	if e.Thorough() {
		limit, reps = 32, 6
	}
	if e.Stats.Counters["sampled_cases"] >= limit {
		return
	}
	e.Stats.Counters["sampled_cases"]++
	hasWeb := w != nil && len(w.Web) > 0
	if w != nil {
		for _, f := range w.Files {
			if f.URL != "" {
				hasWeb = true
			}
		}
	}
	if w != nil && !hasWeb { // the untouched binary has no virtual web to talk to
		e.Stats.FidelityWorlds++
		if msg := Fidelity(e.Bins, w, args); msg != "" {
			e.Stats.FidelityMism++
			wb, _ := json.Marshal(w)
			e.Stats.FidelityMsgs = append(e.Stats.FidelityMsgs, fmt.Sprintf("%s | args=%v | world=%s", msg, args, clip(wb)))
			DebugDump("fidelity", &c.Runs[0].Spec, nil)
		}
	}
	var specs []simrt.Spec
	for i, r := range c.Runs {
		if i < 3 {
			specs = append(specs, r.Spec)
		}
	}
	before := SelfTestTransient
	runs, tm, om := SelfTest(e.Bins, specs, reps)
	e.Stats.Counters["selftest_transient"] += SelfTestTransient - before
	e.Stats.SelfTestRuns += runs
	e.Stats.SelfTestMism += tm + len(om)
	if len(om) > 0 {
		e.Stats.Counters["selftest_output_mismatch"] += len(om)
	}
}

func maxRounds(env *Env) int {
	if env.Thorough() {
		return 6
	}
	return 3
}
