package sim

import (
	"bytes"
	"fmt"
	"go/ast"
	"go/parser"
	"go/printer"
	"go/token"
	"go/types"
	"regexp"
	"sort"
	"strconv"
	"strings"
)

// GoFile is the declaration-level view of one emitted Go file.
type GoFile struct {
	Pkg        string
	Unresolved []string          // identifiers that resolve neither in the file, nor to an import, nor to the universe
	Imports    map[string]string // import path -> local name
	Decls      map[string]string // key -> printed text; key = "type T", "func (T) M", "var v", "const c"
	Dups       []string          // keys declared more than once in this file
	Err        error
}

func ParseGo(src []byte) *GoFile {
	g := &GoFile{Imports: map[string]string{}, Decls: map[string]string{}}
	fset := token.NewFileSet()
	f, err := parser.ParseFile(fset, "gen.go", src, parser.ParseComments)
	if err != nil {
		g.Err = err
		return g
	}
	g.Pkg = f.Name.Name
	defer func() {
		seen := map[string]bool{}
		for _, id := range f.Unresolved {
			if types.Universe.Lookup(id.Name) != nil || seen[id.Name] {
				continue
			}
			isImport := false
			for _, nm := range g.Imports {
				if nm == id.Name {
					isImport = true
				}
			}
			if !isImport {
				seen[id.Name] = true
				g.Unresolved = append(g.Unresolved, id.Name)
			}
		}
		sort.Strings(g.Unresolved)
	}()
	put := func(key string, node any) {
		var b bytes.Buffer
		_ = printer.Fprint(&b, fset, node)
		if _, dup := g.Decls[key]; dup {
			g.Dups = append(g.Dups, key)
		}
		g.Decls[key] = b.String()
	}
	for _, d := range f.Decls {
		switch x := d.(type) {
		case *ast.FuncDecl:
			key := "func " + x.Name.Name
			if x.Recv != nil && len(x.Recv.List) > 0 {
				var b bytes.Buffer
				_ = printer.Fprint(&b, fset, x.Recv.List[0].Type)
				key = "func (" + b.String() + ") " + x.Name.Name
			}
			put(key, x)
		case *ast.GenDecl:
			switch x.Tok {
			case token.IMPORT:
				for _, s := range x.Specs {
					is := s.(*ast.ImportSpec)
					p, _ := strconv.Unquote(is.Path.Value)
					name := p[strings.LastIndex(p, "/")+1:]
					if is.Name != nil {
						name = is.Name.Name
					}
					g.Imports[p] = name
				}
			case token.TYPE:
				for _, s := range x.Specs {
					ts := s.(*ast.TypeSpec)
					if len(x.Specs) == 1 {
						put("type "+ts.Name.Name, x)
					} else {
						put("type "+ts.Name.Name, ts)
					}
				}
			case token.VAR, token.CONST:
				for _, s := range x.Specs {
					vs := s.(*ast.ValueSpec)
					for _, n := range vs.Names {
						if len(x.Specs) == 1 {
							put(x.Tok.String()+" "+n.Name, x)
						} else {
							put(x.Tok.String()+" "+n.Name, vs)
						}
					}
				}
			}
		}
	}
	return g
}

func (g *GoFile) Keys() []string {
	var ks []string
	for k := range g.Decls {
		ks = append(ks, k)
	}
	sort.Strings(ks)
	return ks
}

// StructWithMarker returns the name of the struct type that has a field whose
// tag mentions the given JSON name, or "".
func (g *GoFile) StructWithMarker(marker string) string {
	re := markerRe(marker)
	var names []string
	for k, txt := range g.Decls {
		if strings.HasPrefix(k, "type ") && re.MatchString(txt) && !strings.Contains(txt, `:"cb_`) {
			names = append(names, strings.TrimPrefix(k, "type "))
		}
	}
	sort.Strings(names)
	if len(names) == 0 {
		return ""
	}
	return names[0]
}

// FieldType returns the Go type expression of the field of struct typeName whose
// tag mentions jsonName ("" if not found).
func FieldType(src []byte, typeName, jsonName string) string {
	fset := token.NewFileSet()
	f, err := parser.ParseFile(fset, "gen.go", src, 0)
	if err != nil {
		return ""
	}
	re := regexp.MustCompile(`:"` + regexp.QuoteMeta(jsonName) + `[",]`)
	res := ""
	ast.Inspect(f, func(n ast.Node) bool {
		ts, ok := n.(*ast.TypeSpec)
		if !ok || ts.Name.Name != typeName {
			return true
		}
		st, ok := ts.Type.(*ast.StructType)
		if !ok {
			return false
		}
		for _, fld := range st.Fields.List {
			if fld.Tag != nil && re.MatchString(fld.Tag.Value) {
				var b bytes.Buffer
				_ = printer.Fprint(&b, fset, fld.Type)
				res = b.String()
			}
		}
		return false
	})
	return res
}

// QualifiedRefs lists ident.Name selector uses whose ident does not resolve
// inside the file (package qualifiers), keyed by the identifier.
func QualifiedRefs(src []byte) (map[string][]string, error) {
	fset := token.NewFileSet()
	f, err := parser.ParseFile(fset, "gen.go", src, 0)
	if err != nil {
		return nil, err
	}
	out := map[string][]string{}
	ast.Inspect(f, func(n ast.Node) bool {
		sel, ok := n.(*ast.SelectorExpr)
		if !ok {
			return true
		}
		id, ok := sel.X.(*ast.Ident)
		if !ok || id.Obj != nil {
			return true
		}
		out[id.Name] = append(out[id.Name], sel.Sel.Name)
		return true
	})
	return out, nil
}

func stripType(t string) string {
	for {
		switch {
		case strings.HasPrefix(t, "*"):
			t = t[1:]
		case strings.HasPrefix(t, "[]"):
			t = t[2:]
		default:
			return t
		}
	}
}

func fmtKeys(ks []string, max int) string {
	if len(ks) > max {
		return fmt.Sprintf("%v ... (%d more)", ks[:max], len(ks)-max)
	}
	return fmt.Sprint(ks)
}

var markerRes = map[string]*regexp.Regexp{}

func markerRe(marker string) *regexp.Regexp {
	if re, ok := markerRes[marker]; ok {
		return re
	}
	re := regexp.MustCompile(`:"` + regexp.QuoteMeta(marker) + `[",]`)
	markerRes[marker] = re
	return re
}
