package sim

import (
	"bytes"
	"encoding/json"
	"fmt"
	"path/filepath"
	"sort"
	"strings"

	"pgregory.net/rapid"
)

// C10 (the part a simulator can decide): which file a $ref denotes under every
// layout / cwd / spelling / load history, one Go type per target, recursion ends
// and every type cycle is broken by a pointer, slice or map.
type c10 struct{}

func init() { Properties["C10"] = c10{} }

func (c10) ID() string    { return "C10" }
func (c10) Level() string { return "exploration" }
func (c10) Rule() string {
	return "Cases: a rapid-drawn world of 1-4 tagged schema files in a directory tree (refs spelled x.json, ./x.json, ../d/x.json, file://, absolute, " +
		"extension-less with --resolve-extension in varying order, through a symlink, #/$defs and #/definitions fragments, self/mutual recursion within " +
		"and across files; optionally two different files both named common.json referenced by the same relative spelling from two directories, and " +
		"x.json next to x.yaml referenced as x). The same world is run from several working directories (schema root, a sub directory, /, an unrelated " +
		"directory) with arguments re-spelled accordingly and in a drawn order. Oracles: V a world whose references all have an existing model target " +
		"exits 0, never dies or overruns; A attribution: the field generated for each top-level $ref property has the type whose declaration carries " +
		"the marker of the target computed by an independent resolution model (join(dir(real path of referrer), ref), probe extensions in order, follow " +
		"symlinks); S every marker is declared exactly once and all referrers of one target use one Go type; W outputs are byte-identical from every " +
		"working directory; P no cycle of struct types embedded by value. Non-trivial iff >=1 cross-file ref was attributed; distinct = hash of run specs."
}

type c10Ref struct {
	RefUse
	ModelTag string `json:"model_tag"`
	ModelDef string `json:"model_def"`
}

type c10Meta struct {
	Refs    []c10Ref          `json:"refs"`
	Markers map[string]string `json:"markers"` // marker -> tag
	Cwds    []string          `json:"cwds"`
	OutRel  []bool            `json:"out_rel"`
	Cycle   bool              `json:"cross_file_cycle"`
	Feat    Feat              `json:"feat"`
}

// modelResolve is the reference model of file resolution, written from the
// flag help and JSON-Schema convention, not from the code under test.
func modelResolve(w *World, from *SFile, ref string) (tag, def string, ok bool) {
	file, frag := ref, ""
	if i := strings.Index(ref, "#"); i >= 0 {
		file, frag = ref[:i], ref[i+1:]
	}
	if frag != "" {
		lf := strings.ToLower(frag)
		switch {
		case strings.HasPrefix(lf, "/$defs/"):
			def = frag[len("/$defs/"):]
		case strings.HasPrefix(lf, "/definitions/"):
			def = frag[len("/definitions/"):]
		default:
			return "", "", false
		}
	}
	target := from
	if file != "" {
		file = strings.TrimPrefix(file, "file://")
		file = strings.ReplaceAll(file, RootPH, w.Root)
		p := file
		if !filepath.IsAbs(p) {
			p = filepath.Join(w.Root, from.Dir, p)
		}
		p = filepath.Clean(p)
		exists := func(p string) (string, bool) {
			for _, l := range w.Links {
				if filepath.Join(w.Root, l.Path) == p {
					return filepath.Clean(filepath.Join(filepath.Dir(p), l.Target)), true
				}
			}
			for _, f := range w.Files {
				if filepath.Join(w.Root, f.Rel()) == p {
					return p, true
				}
			}
			return "", false
		}
		real, found := "", false
		for _, ext := range append([]string{""}, w.Opts.ResolveExt...) {
			if r, ok := exists(p + ext); ok {
				real, found = r, true
				break
			}
		}
		if !found {
			return "", "", false
		}
		target = nil
		for _, f := range w.Files {
			if filepath.Join(w.Root, f.Rel()) == real {
				target = f
			}
		}
		if target == nil {
			return "", "", false
		}
	}
	if def != "" {
		okDef := false
		for _, d := range target.Defs {
			if d == def {
				okDef = true
			}
		}
		if !okDef {
			return target.Tag, def, false
		}
	}
	return target.Tag, def, true
}

var cwdChoices = []string{"/w", "/w/a", "/", "/elsewhere", "/w/b"}

func (p c10) Gen(t *rapid.T, env *Env) (*Case, []*Out) {
	maxFiles := 3
	if env.Thorough() {
		maxFiles = 4
	}
	w := GenWorldC10(t, maxFiles)
	env.Stats.NoteFeat(w.Feat)
	meta := c10Meta{Markers: map[string]string{}, Cycle: hasCrossFileCycle(w), Feat: w.Feat}
	for _, f := range w.Files {
		for _, mk := range markersOf(f) {
			meta.Markers[mk] = f.Tag
		}
		for _, r := range f.Refs {
			mt, md, ok := modelResolve(w, f, r.Ref)
			if !ok || mt != r.ToTag || md != r.ToDef {
				// the generator's intent and the independent model disagree: harness defect
				env.Stats.Counters["model_vs_generator_disagree"]++
				return nil, nil
			}
			meta.Refs = append(meta.Refs, c10Ref{RefUse: r, ModelTag: mt, ModelDef: md})
		}
	}
	// arguments: the ordinary files (special shadow files are reached by reference only)
	var ord []int
	for i, f := range w.Files {
		if !isSpecial(f) {
			ord = append(ord, i)
		}
	}
	perm := rapid.Permutation(ord).Draw(t, "argorder")
	nargs := rapid.IntRange(1, len(perm)).Draw(t, "nargs")
	perm = perm[:nargs]
	ncwd := rapid.IntRange(2, 3).Draw(t, "ncwd")
	if env.Thorough() {
		ncwd = rapid.IntRange(2, 5).Draw(t, "ncwdT")
	}
	cwds := append([]string{w.Cwd}, rapid.Permutation(cwdChoices).Draw(t, "cwds")...)
	c := &Case{Prop: "C10"}
	var outs []*Out
	var fidW *World
	var fidArgs []string
	seen := map[string]bool{}
	absOut := w.Opts.Output != "" && w.Opts.Output != "-"
	for _, cwd := range cwds {
		if seen[cwd] || len(c.Runs) >= ncwd {
			continue
		}
		seen[cwd] = true
		w2 := *w
		w2.Cwd = cwd
		// keep outputs at one absolute place so that runs are comparable
		o2 := w.Opts
		if absOut {
			o2.Output = filepath.Join(RootPH, "zz_out", filepath.Base(w.Opts.Output))
			var so []Pair
			for _, p := range w.Opts.SchemaOut {
				v := p.V
				if v != "-" {
					v = filepath.Join(RootPH, "zz_out", v)
				}
				so = append(so, Pair{p.K, v})
			}
			o2.SchemaOut = so
		} else if len(w.Opts.SchemaOut) > 0 {
			var so []Pair
			for _, p := range w.Opts.SchemaOut {
				v := p.V
				if v != "-" {
					v = filepath.Join(RootPH, "zz_out", v)
				}
				so = append(so, Pair{p.K, v})
			}
			o2.SchemaOut = so
		}
		w2.Opts = o2
		var args []string
		for _, i := range perm {
			sp := rapid.SampledFrom([]string{"rel", "rel", "dot", "abs"}).Draw(t, "argsp")
			args = append(args, w2.ArgFor(w.Files[i], sp))
		}
		if fidW == nil {
			cp := w2
			fidW, fidArgs = &cp, args
		}
		c.Runs = append(c.Runs, Run{Label: "cwd " + cwd, Spec: w2.Spec("", nil, args)})
		meta.Cwds = append(meta.Cwds, cwd)
		outs = append(outs, env.Exec(&c.Runs[len(c.Runs)-1].Spec))
	}
	c.Meta, _ = json.Marshal(meta)
	env.sampleChecks(fidW, fidArgs, c)
	return c, outs
}

func (p c10) Eval(c *Case, outs []*Out) []Discrepancy {
	var meta c10Meta
	_ = json.Unmarshal(c.Meta, &meta)
	var ds []Discrepancy
	cyc := "acyclic"
	if meta.Cycle {
		cyc = "cross-file-cycle"
	}
	var firstOut map[string][]byte
	firstIdx := -1
	for i, o := range outs {
		if o == nil {
			continue
		}
		add := func(clause, what, detail string) {
			ds = append(ds, Discrepancy{Sig: "C10|" + clause + "|" + what + "|" + cyc, Detail: fmt.Sprintf("run %d (%s, args %v): %s", i, c.Runs[i].Label, tailArgs(c.Runs[i].Spec.Args), detail), Runs: []int{i}})
		}
		// V: valid worlds terminate and succeed
		if !o.HasRes || o.TimedOut {
			add("V", "died:"+o.Fatal(), clip(o.Stderr))
			continue
		}
		if o.Res.Panic != "" {
			add("V", "panic", o.Res.Panic+"\n"+clipStack(o.Res.Stack))
			continue
		}
		if o.Res.Overrun {
			add("V", "nontermination:"+o.Res.OverrunKind, fmt.Sprintf("budget exhausted after %d ticks", o.Res.Ticks))
			continue
		}
		if o.Res.Exit != 0 {
			add("V", "valid-world-fails:"+failClass(o.Stderr), fmt.Sprintf("every reference has an existing target, yet exit %d: %s", o.Res.Exit, clip(o.Stderr)))
			continue
		}
		outputs := Outputs(&c.Runs[i].Spec, o)
		// W: identical outputs from every working directory
		if firstOut == nil {
			firstOut, firstIdx = outputs, i
		} else {
			for _, n := range sortedNames(firstOut, outputs) {
				a, okA := firstOut[n]
				b, okB := outputs[n]
				if okA != okB {
					add("W", "output-set-depends-on-cwd", fmt.Sprintf("output %q present from %s=%v, from %s=%v", n, meta.Cwds[firstIdx], okA, meta.Cwds[i], okB))
				} else if !bytes.Equal(a, b) {
					add("W", "bytes-depend-on-cwd", fmt.Sprintf("output %q differs between cwd %s and cwd %s: %s", n, meta.Cwds[firstIdx], meta.Cwds[i], firstDiff(a, b)))
				}
			}
		}
		files := map[string]*GoFile{}
		for path, b := range outputs {
			files[path] = ParseGo(b)
		}
		// S: each marker declared at most once
		holder := map[string][2]string{} // marker -> (path, struct)
		for mk := range meta.Markers {
			var found [][2]string
			for path, g := range files {
				if g.Err != nil {
					continue
				}
				re := markerRe(mk)
				for k, txt := range g.Decls {
					if strings.HasPrefix(k, "type ") && re.MatchString(txt) && isOwnMarker(txt, mk, meta.Markers) {
						found = append(found, [2]string{path, strings.TrimPrefix(k, "type ")})
					}
				}
			}
			sort.Slice(found, func(a, b int) bool { return found[a][0]+found[a][1] < found[b][0]+found[b][1] })
			if len(found) > 1 {
				add("S", "target-declared-more-than-once", fmt.Sprintf("marker %s is carried by %v: the referenced schema got several Go types", mk, found))
			}
			if len(found) >= 1 {
				holder[mk] = found[0]
			}
		}
		// A: attribution
		typeOf := map[string]string{} // model target -> go type used by referrers
		for _, r := range meta.Refs {
			fromMk := "mk_" + r.FromTag
			if r.FromDef != "" {
				fromMk += "_" + r.FromDef
			}
			h, ok := holder[fromMk]
			if !ok {
				continue // the referring struct is not part of this run's output
			}
			ft := FieldType(outputs[h[0]], h[1], r.Prop)
			if ft == "" {
				add("A", "ref-field-missing", fmt.Sprintf("struct %s (marker %s) has no field for property %q ($ref %q)", h[1], fromMk, r.Prop, r.Ref))
				continue
			}
			base := stripType(ft)
			if j := strings.LastIndex(base, "."); j >= 0 {
				base = base[j+1:]
			}
			toMk := "mk_" + r.ModelTag
			if r.ModelDef != "" {
				toMk += "_" + r.ModelDef
			}
			th, ok := holder[toMk]
			if !ok {
				add("A", "target-not-emitted", fmt.Sprintf("$ref %q (property %q of %s) should denote %s but no emitted struct carries %s; field type is %s", r.Ref, r.Prop, h[1], toMk, toMk, ft))
				continue
			}
			if th[1] != base {
				// which marker does the actual type carry?
				actual := "no marker"
				for mk, hh := range holder {
					if hh[1] == base {
						actual = mk
					}
				}
				add("A", "ref-bound-to-wrong-target:"+r.Spelling, fmt.Sprintf("$ref %q in %s (property %q) should denote %s (type %s) but the field has type %s, which carries %s", r.Ref, r.FromTag, r.Prop, toMk, th[1], ft, actual))
				continue
			}
			key := r.ModelTag + "#" + r.ModelDef
			if old, ok := typeOf[key]; ok && old != base {
				add("S", "referrers-use-different-types", fmt.Sprintf("target %s is %s for one referrer and %s for another", key, old, base))
			}
			typeOf[key] = base
		}
		// P: no by-value struct cycle
		if vc := valueCycle(files); vc != "" {
			cls := "by-value-type-cycle"
			if meta.Feat.ReqCycle {
				cls += ":world-with-required-recursive-ref"
			}
			add("P", cls, "struct types embed each other by value (invalid recursive type): "+vc)
		}
	}
	return dedupe(ds)
}

func tailArgs(a []string) []string {
	if len(a) > 3 {
		return a[len(a)-3:]
	}
	return a
}

func failClass(stderr []byte) string {
	s := string(stderr)
	for _, k := range []string{"cannot resolve schema", "definition does not exist", "cannot load schema", "conflict", "no root", "could not merge", "invalid type"} {
		if strings.Contains(s, k) {
			return strings.ReplaceAll(k, " ", "-")
		}
	}
	return "other"
}

// isOwnMarker: struct text carries marker mk as one of its own fields and mk is
// the most specific marker of that name (mk_t0 is a prefix of mk_t0_T0Da).
func isOwnMarker(txt, mk string, all map[string]string) bool {
	return markerRe(mk).MatchString(txt)
}

// valueCycle looks for a cycle among struct types that contain each other by
// value (such a program does not compile: invalid recursive type).
func valueCycle(files map[string]*GoFile) string {
	edges := map[string][]string{}
	for _, g := range files {
		if g.Err != nil {
			continue
		}
		for k, txt := range g.Decls {
			if !strings.HasPrefix(k, "type ") || !strings.Contains(txt, "struct {") {
				continue
			}
			name := g.Pkg + "." + strings.TrimPrefix(k, "type ")
			for _, line := range strings.Split(txt, "\n") {
				f := strings.Fields(strings.TrimSpace(line))
				if len(f) < 2 || strings.HasPrefix(f[0], "//") || f[0] == "type" || f[0] == "}" {
					continue
				}
				ty := f[1]
				if strings.HasPrefix(ty, "*") || strings.HasPrefix(ty, "[]") || strings.HasPrefix(ty, "map[") || strings.HasPrefix(ty, "interface") {
					continue
				}
				if !strings.Contains(ty, ".") {
					ty = g.Pkg + "." + ty
				}
				edges[name] = append(edges[name], ty)
			}
		}
	}
	state := map[string]int{}
	var path []string
	var found string
	var dfs func(n string) bool
	dfs = func(n string) bool {
		state[n] = 1
		path = append(path, n)
		for _, m := range edges[n] {
			if _, isStruct := edges[m]; !isStruct {
				continue
			}
			if state[m] == 1 {
				found = strings.Join(append(path, m), " -> ")
				return true
			}
			if state[m] == 0 && dfs(m) {
				return true
			}
		}
		path = path[:len(path)-1]
		state[n] = 2
		return false
	}
	var names []string
	for n := range edges {
		names = append(names, n)
	}
	sort.Strings(names)
	for _, n := range names {
		if state[n] == 0 && dfs(n) {
			return found
		}
	}
	return ""
}

func (p c10) Nontrivial(c *Case, outs []*Out) bool {
	var meta c10Meta
	_ = json.Unmarshal(c.Meta, &meta)
	for _, r := range meta.Refs {
		if !r.LocalOnly {
			return true
		}
	}
	return false
}
