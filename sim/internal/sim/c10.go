package sim

import (
	"bytes"
	"encoding/json"
	"fmt"
	"path/filepath"
	"regexp"
	"sort"
	"strings"

	"pgregory.net/rapid"
)

// C10 (the part a simulator can decide): which file a $ref denotes under every
// layout / cwd / spelling / load history, one Go type per target, recursion ends
// and every type cycle is broken by a pointer, slice or map.
type c10 struct{}

func init() { Properties["C10"] = c10{} }

func (c10) ID() string    { return "C10" }
func (c10) Level() string { return "exploration" }
func (c10) Rule() string {
	return "Cases: a rapid-drawn world of 1-4 tagged schema files in a directory tree (refs spelled x.json, ./x.json, ../d/x.json, file://, absolute, " +
		"extension-less with --resolve-extension in varying order, through a symlink, #/$defs and #/definitions fragments, self/mutual recursion within " +
		"and across files; optionally two different files both named common.json referenced by the same relative spelling from two directories, and " +
		"x.json next to x.yaml referenced as x). The same world is run from several working directories (schema root, a sub directory, /, an unrelated " +
		"directory) with arguments re-spelled accordingly and in a drawn order. Oracles: V a world whose references all have an existing model target " +
		"exits 0, never dies or overruns; A attribution: the field generated for each top-level $ref property has the type whose declaration carries " +
		"the marker of the target computed by an independent resolution model (join(dir(real path of referrer), ref), probe extensions in order, follow " +
		"symlinks); S every marker is declared exactly once and all referrers of one target use one Go type; W outputs are byte-identical from every " +
		"working directory; P no cycle of struct types embedded by value. Non-trivial iff >=1 cross-file ref was attributed; distinct = hash of run specs."
}

type c10Ref struct {
	RefUse
	ModelTag string `json:"model_tag"`
	ModelDef string `json:"model_def"`
}

type c10Meta struct {
	Refs    []c10Ref          `json:"refs"`
	Markers map[string]string `json:"markers"` // marker -> tag
	Cwds    []string          `json:"cwds"`
	OutRel  []bool            `json:"out_rel"`
	Cycle   bool              `json:"cross_file_cycle"`
	// CrossCombo: some allOf/anyOf branch $ref points into another file (its
	// properties are merged into the referrer: known finding KF-C10-2)
	CrossCombo bool              `json:"crossfile_combinator"`
	PkgOf      map[string]string `json:"pkg_of"`               // tag -> package (base name) its id maps to
	ClashDefs  []string          `json:"clash_defs,omitempty"` // name-clash definitions of the world (KF-C10-4/5 scope)
	OutOf      map[string]string `json:"out_of"`               // tag -> output file ("-" = stdout) its id maps to in these runs
	RecCombo   bool              `json:"rec_combo"`            // a reference cycle runs through an allOf/anyOf branch
	// MergedRel: the target of such a ref itself contains a relative $ref (fragment or
	// relative file name): merged into the referrer it loses its document context.
	MergedRel bool `json:"merged_target_has_relative_ref"`
	// CrossPkgAnyOf: an anyOf branch $ref crosses packages (the branch type is
	// regenerated as a copy in the referrer's package).
	CrossPkgAnyOf bool `json:"crosspackage_anyof_ref"`
	// CrossPkgEnum: a combinator ref crosses packages and its target holds an integer enum.
	CrossPkgEnum bool `json:"crosspackage_merged_integer_enum"`
	Feat         Feat `json:"feat"`
}

// modelResolve is the reference model of file resolution, written from the
// flag help and JSON-Schema convention, not from the code under test.
func modelResolve(w *World, from *SFile, ref string) (tag, def string, ok bool) {
	file, frag := ref, ""
	if i := strings.Index(ref, "#"); i >= 0 {
		file, frag = ref[:i], ref[i+1:]
	}
	if frag != "" {
		lf := strings.ToLower(frag)
		switch {
		case strings.HasPrefix(lf, "/$defs/"):
			def = frag[len("/$defs/"):]
		case strings.HasPrefix(lf, "/definitions/"):
			def = frag[len("/definitions/"):]
		default:
			return "", "", false
		}
	}
	target := from
	if strings.HasPrefix(file, "http://") || strings.HasPrefix(file, "https://") {
		target = nil
		for _, f := range w.Files {
			if f.URL == file {
				target = f
			}
		}
		if target == nil {
			return "", "", false
		}
	} else if file != "" {
		file = strings.TrimPrefix(file, "file://")
		file = strings.ReplaceAll(file, RootPH, w.Root)
		p := file
		if !filepath.IsAbs(p) {
			p = filepath.Join(w.Root, from.Dir, p)
		}
		p = filepath.Clean(p)
		exists := func(p string) (string, bool) {
			for _, l := range w.Links {
				if filepath.Join(w.Root, l.Path) == p {
					return filepath.Clean(filepath.Join(filepath.Dir(p), l.Target)), true
				}
			}
			for _, f := range w.Files {
				if filepath.Join(w.Root, f.Rel()) == p {
					return p, true
				}
			}
			return "", false
		}
		real, found := "", false
		for _, ext := range append([]string{""}, w.Opts.ResolveExt...) {
			if r, ok := exists(p + ext); ok {
				real, found = r, true
				break
			}
		}
		if !found {
			return "", "", false
		}
		target = nil
		for _, f := range w.Files {
			if filepath.Join(w.Root, f.Rel()) == real {
				target = f
			}
		}
		if target == nil {
			return "", "", false
		}
	}
	if def != "" {
		okDef := false
		for _, d := range target.Defs {
			if d == def {
				okDef = true
			}
		}
		if !okDef && target.Doc != nil {
			// a definition without marker (not listed in Defs): look into the document itself
			if dv, ok := target.Doc.Get(defsKey(target.Doc)); ok {
				if do, ok := dv.(Obj); ok {
					_, okDef = do.Get(def)
				}
			}
		}
		if !okDef {
			return target.Tag, def, false
		}
		// a definition that is {"type": "object", "$ref": R} stands for what R denotes, R being relative to the
		// document that holds the definition
		if dv, ok := target.Doc.Get(defsKey(target.Doc)); ok && target.Doc != nil {
			if do, ok := dv.(Obj); ok {
				if body, ok := do.Get(def); ok {
					if bo, ok := body.(Obj); ok {
						if inner, ok := bo.Get("$ref"); ok && len(bo) <= 2 {
							if is, ok := inner.(string); ok && is != ref {
								return modelResolve(w, target, is)
							}
						}
					}
				}
			}
		}
	}
	return target.Tag, def, true
}

var cwdChoices = []string{"/w", "/w/a", "/", "/elsewhere", "/w/b"}

func (p c10) Gen(t *rapid.T, env *Env) (*Case, []*Out) {
	maxFiles := 3
	if env.Thorough() {
		maxFiles = 4
	}
	w := GenWorldC10(t, maxFiles)
	env.Stats.NoteFeat(w.Feat)
	meta := c10Meta{Markers: map[string]string{}, Cycle: hasCrossFileCycle(w), Feat: w.Feat, PkgOf: map[string]string{}, OutOf: map[string]string{}, RecCombo: hasRecursiveCombinator(w)}
	for _, f := range w.Files {
		if f.ClashDef != "" {
			meta.ClashDefs = append(meta.ClashDefs, f.ClashDef)
		}
		if f.Tag == "j0" {
			meta.ClashDefs = append(meta.ClashDefs, strings.TrimSuffix(f.Base, ".json"))
		}
		_, pp := expectedRouting(w, f)
		meta.PkgOf[f.Tag] = pp[strings.LastIndex(pp, "/")+1:]
		for _, mk := range markersOf(f) {
			meta.Markers[mk] = f.Tag
		}
		for _, r := range f.Refs {
			mt, md, ok := modelResolve(w, f, r.Ref)
			if !ok || mt != r.ToTag || md != r.ToDef {
				// the generator's intent and the independent model disagree: harness defect
				env.Stats.Counters["model_vs_generator_disagree"]++
				return nil, nil
			}
			if tf := w.File(mt); tf != nil && md != "" && md == tf.ClashDef {
				r.Spelling = "nameclash" // every reference to the name-clash definition, however spelled
			}
			if jf := w.File("j0"); jf != nil && (r.Spelling != "typename" || meta.Cycle) {
				// T0Da.json's root type wants the name T0Da, which the definition T0Da of the first document holds: a
				// name clash like the one above (the hijack itself keeps its own label, "typename")
				if mt == "j0" || (mt == w.Files[0].Tag && md == strings.TrimSuffix(jf.Base, ".json")) {
					r.Spelling = "nameclash"
				}
			}
			meta.Refs = append(meta.Refs, c10Ref{RefUse: r, ModelTag: mt, ModelDef: md})
			if r.Combo != "" && !r.LocalOnly && r.ToTag != r.FromTag {
				meta.CrossCombo = true
				tf := w.File(r.ToTag)
				var sub any = tf.Doc
				if r.ToDef != "" {
					if d, ok := tf.Doc.Get(defsKey(tf.Doc)); ok {
						if do, ok := d.(Obj); ok {
							sub, _ = do.Get(r.ToDef)
						}
					}
				} else {
					// only the root's own keywords are merged, not its definitions
					sub = tf.Doc.Del("$defs").Del("definitions")
				}
				if hasRelativeRef(sub) && !memoRescues(w, f, tf, sub) {
					meta.MergedRel = true
				}
				if tf.Pkg != f.Pkg {
					if r.Combo == "anyOf" {
						meta.CrossPkgAnyOf = true
					}
					if hasIntegerEnum(sub) {
						meta.CrossPkgEnum = true
					}
				}
			}
		}
	}
	{
		crossPkgCombo := false
		for _, f := range w.Files {
			for _, r := range f.Refs {
				if tf := w.File(r.ToTag); r.Combo != "" && tf != nil && tf.Pkg != f.Pkg {
					crossPkgCombo = true
				}
			}
		}
		if crossPkgCombo && hasAnyOfRefBranch(w) {
			meta.CrossPkgAnyOf = true
		}
	}
	// arguments: the ordinary files (special shadow files are reached by reference only)
	var ord []int
	for i, f := range w.Files {
		if !isSpecial(f) {
			ord = append(ord, i)
		}
	}
	perm := rapid.Permutation(ord).Draw(t, "argorder")
	nargs := rapid.IntRange(1, len(perm)).Draw(t, "nargs")
	perm = perm[:nargs]
	ncwd := rapid.IntRange(2, 3).Draw(t, "ncwd")
	if env.Thorough() {
		ncwd = rapid.IntRange(2, 5).Draw(t, "ncwdT")
	}
	cwds := append([]string{w.Cwd}, rapid.Permutation(cwdChoices).Draw(t, "cwds")...)
	c := &Case{Prop: "C10"}
	var outs []*Out
	var fidW *World
	var fidArgs []string
	seen := map[string]bool{}
	absOut := w.Opts.Output != "" && w.Opts.Output != "-"
	for _, cwd := range cwds {
		if seen[cwd] || len(c.Runs) >= ncwd {
			continue
		}
		seen[cwd] = true
		w2 := *w
		w2.Cwd = cwd
		// keep outputs at one absolute place so that runs are comparable
		o2 := w.Opts
		if absOut {
			o2.Output = filepath.Join(RootPH, "zz_out", w.Opts.Output)
			var so []Pair
			for _, p := range w.Opts.SchemaOut {
				v := p.V
				if v != "-" {
					v = filepath.Join(RootPH, "zz_out", v)
				}
				so = append(so, Pair{p.K, v})
			}
			o2.SchemaOut = so
		} else if len(w.Opts.SchemaOut) > 0 {
			var so []Pair
			for _, p := range w.Opts.SchemaOut {
				v := p.V
				if v != "-" {
					v = filepath.Join(RootPH, "zz_out", v)
				}
				so = append(so, Pair{p.K, v})
			}
			o2.SchemaOut = so
		}
		w2.Opts = o2
		var args []string
		for _, i := range perm {
			sp := rapid.SampledFrom([]string{"rel", "rel", "dot", "abs"}).Draw(t, "argsp")
			args = append(args, w2.ArgFor(w.Files[i], sp))
		}
		if fidW == nil {
			cp := w2
			fidW, fidArgs = &cp, args
		}
		{
			w3 := w2
			w3.Opts.Output = strings.ReplaceAll(w3.Opts.Output, RootPH, w.Root)
			var so []Pair
			for _, p := range w3.Opts.SchemaOut {
				so = append(so, Pair{p.K, strings.ReplaceAll(p.V, RootPH, w.Root)})
			}
			w3.Opts.SchemaOut = so
			for _, f := range w.Files {
				meta.OutOf[f.Tag], _ = expectedRouting(&w3, f)
			}
		}
		c.Runs = append(c.Runs, Run{Label: "cwd " + cwd, Spec: w2.Spec("", nil, args)})
		meta.Cwds = append(meta.Cwds, cwd)
		outs = append(outs, env.Exec(&c.Runs[len(c.Runs)-1].Spec))
	}
	c.Meta, _ = json.Marshal(meta)
	env.sampleChecks(fidW, fidArgs, c)
	return c, outs
}

func (p c10) Eval(c *Case, outs []*Out) []Discrepancy {
	var meta c10Meta
	_ = json.Unmarshal(c.Meta, &meta)
	var ds []Discrepancy
	cyc := "acyclic"
	if meta.Cycle {
		cyc = "cross-file-cycle"
	}
	var firstOut map[string][]byte
	firstIdx := -1
	for i, o := range outs {
		if o == nil {
			continue
		}
		add := func(clause, what, detail string) {
			ds = append(ds, Discrepancy{Sig: "C10|" + clause + "|" + what + "|" + cyc, Detail: fmt.Sprintf("run %d (%s, args %v): %s", i, c.Runs[i].Label, tailArgs(c.Runs[i].Spec.Args), detail), Runs: []int{i}})
		}
		// V: valid worlds terminate and succeed
		if !o.HasRes || o.TimedOut {
			add("V", "died:"+o.Fatal(), clip(o.Stderr))
			continue
		}
		if o.Res.Panic != "" {
			add("V", "panic", o.Res.Panic+"\n"+clipStack(o.Res.Stack))
			continue
		}
		if o.Res.Overrun {
			add("V", "nontermination:"+o.Res.OverrunKind, fmt.Sprintf("budget exhausted after %d ticks", o.Res.Ticks))
			continue
		}
		if o.Res.Exit != 0 {
			if meta.Feat.SlashDef && bytes.Contains(o.Stderr, []byte("/x")) {
				// "#/$defs/T0Da/x": read strictly as a JSON pointer it denotes nothing; failing on it is a reading of
				// the reference, not a defect. Only binding it to something else is judged (clause A).
				continue
			}
			fc := failClass(o.Stderr)
			if meta.MergedRel {
				fc += ":merged-target-has-relative-ref"
			} else if meta.CrossPkgEnum && fc == "enum-has-non-primitive" {
				fc += ":crosspackage-merged-integer-enum"
			}
			add("V", "valid-world-fails:"+fc, fmt.Sprintf("every reference has an existing target, yet exit %d: %s", o.Res.Exit, clip(o.Stderr)))
			continue
		}
		outputs := Outputs(&c.Runs[i].Spec, o)
		// W: identical outputs from every working directory
		if firstOut == nil {
			firstOut, firstIdx = outputs, i
		} else {
			for _, n := range sortedNames(firstOut, outputs) {
				a, okA := firstOut[n]
				b, okB := outputs[n]
				if okA != okB {
					add("W", "output-set-depends-on-cwd", fmt.Sprintf("output %q present from %s=%v, from %s=%v", n, meta.Cwds[firstIdx], okA, meta.Cwds[i], okB))
				} else if !bytes.Equal(a, b) {
					add("W", "bytes-depend-on-cwd", fmt.Sprintf("output %q differs between cwd %s and cwd %s: %s", n, meta.Cwds[firstIdx], meta.Cwds[i], firstDiff(a, b)))
				}
			}
		}
		files := map[string]*GoFile{}
		for path, b := range outputs {
			files[path] = ParseGo(b)
		}
		// S: no type is declared twice in one output file (the second copy of a referenced
		// schema under the same name; does not compile)
		for path, g := range files {
			if g.Err != nil {
				continue
			}
			var dupTypes []string
			for _, k := range g.Dups {
				if strings.HasPrefix(k, "type ") {
					dupTypes = append(dupTypes, k)
				}
			}
			if len(dupTypes) > 0 {
				sort.Strings(dupTypes)
				cls := "type-declared-twice-in-one-file"
				allClash := true
				for _, k := range dupTypes {
					isClash := false
					for _, cd := range meta.ClashDefs {
						if k == "type "+cd {
							isClash = true
						}
					}
					allClash = allClash && isClash
				}
				if allClash {
					cls += ":nameclash"
				} else if hasStr(dupTypes, "type Sub") {
					// (together with Sub, inline types of what it refers to may be declared again)
					for _, r := range meta.Refs {
						if r.Spelling == "samename:ref-target" {
							cls += ":samename:ref-target" // known finding KF-C10-6
							break
						}
					}
				}
				add("S", cls, fmt.Sprintf("output %q declares %v more than once", path, dupTypes))
			}
		}
		// S: each marker is declared exactly once in the package its schema maps to
		type carrier struct{ path, pkg, name string }
		holder := map[string]carrier{}
		for mk, tag := range meta.Markers {
			var found []carrier
			re := markerRe(mk)
			for path, g := range files {
				if g.Err != nil {
					continue
				}
				for k, txt := range g.Decls {
					if strings.HasPrefix(k, "type ") && re.MatchString(txt) && !strings.Contains(txt, `:"cb_`) {
						found = append(found, carrier{path, g.Pkg, strings.TrimPrefix(k, "type ")})
					}
				}
			}
			sort.Slice(found, func(a, b int) bool { return found[a].path+found[a].name < found[b].path+found[b].name })
			var own []carrier
			for _, c := range found {
				if c.path == meta.OutOf[tag] || (meta.OutOf[tag] == "" && c.pkg == meta.PkgOf[tag]) {
					own = append(own, c)
				}
			}
			if len(own) > 1 {
				add("S", "target-declared-more-than-once", fmt.Sprintf("marker %s is carried by %v in its own package: the referenced schema got several Go types", mk, own))
			}
			if len(found) > len(own) {
				cls := "target-copied-into-another-package"
				if meta.CrossPkgAnyOf {
					cls += ":crosspackage-anyOf-ref"
				}
				add("S", cls, fmt.Sprintf("marker %s (package %s) is also carried by a full copy elsewhere: %v", mk, meta.PkgOf[tag], found))
			}
			if len(own) >= 1 {
				holder[mk] = own[0]
			}
		}
		// A: attribution
		typeOf := map[string]string{} // model target -> go type used by referrers
		type twinRef struct{ tag, prop, typ string }
		twinType := map[string]twinRef{}
		recCombo := meta.RecCombo
		for _, r := range meta.Refs {
			fromMk := "mk_" + r.FromTag
			if r.FromDef != "" {
				fromMk += "_" + r.FromDef
			}
			h, ok := holder[fromMk]
			if !ok {
				continue // the referring struct is not part of this run's output
			}
			ft := FieldType(outputs[h.path], h.name, r.Prop)
			if ft == "" {
				add("A", "ref-field-missing", fmt.Sprintf("struct %s (marker %s) has no field for property %q ($ref %q)", h.name, fromMk, r.Prop, r.Ref))
				continue
			}
			base := stripType(ft)
			pkg := h.pkg
			if j := strings.LastIndex(base, "."); j >= 0 {
				pkg, base = base[:j], base[j+1:]
			}
			if strings.HasPrefix(r.Spelling, "samename:") {
				// two documents define "Sub" slightly differently: the two references must not end up at one Go type
				if prev, ok := twinType[r.Spelling]; ok && prev.tag != r.ModelTag && prev.typ == pkg+"."+base {
					add("S", "distinct-definitions-share-one-type:"+r.Spelling, fmt.Sprintf("%s#/$defs/Sub and %s#/$defs/Sub differ (%s) but property %q and property %q both have type %s: one definition lost its type, its referrers decode with the other's fields, defaults and checks",
						prev.tag, r.ModelTag, strings.TrimPrefix(r.Spelling, "samename:"), prev.prop, r.Prop, ft))
				}
				twinType[r.Spelling] = twinRef{r.ModelTag, r.Prop, pkg + "." + base}
				continue
			}
			toMk := "mk_" + r.ModelTag
			if r.ModelDef != "" {
				toMk += "_" + r.ModelDef
			}
			if r.Combo != "" {
				if base == "interface{}" && recCombo {
					continue // a reference cycle through the combinator collapses to interface{}
				}
				// the field's struct is a merged copy: it must carry the target's marker
				txt := ""
				for _, g := range files {
					if g.Err == nil && g.Pkg == pkg {
						if t, ok := g.Decls["type "+base]; ok {
							txt = t
						}
					}
				}
				if !markerRe(toMk).MatchString(txt) {
					actual := "no marker"
					for mk := range meta.Markers {
						if markerRe(mk).MatchString(txt) {
							actual = mk
						}
					}
					add("A", "combinator-ref-bound-to-wrong-target"+spellOrRel(r.Spelling, meta), fmt.Sprintf("%s branch $ref %q in %s (property %q) should merge %s but the field type %s carries %s", r.Combo, r.Ref, r.FromTag, r.Prop, toMk, ft, actual))
				} else if cbs := cbTags(txt); r.CB != "" && txt != "" && (len(cbs) != 1 || cbs[0] != r.CB) {
					// the merged struct is target + its own extra branch; a cb_ marker of ANOTHER composition in it means
					// that merging wrote into a schema node shared with that other composition
					add("A", "combinator-merge-leaks-between-compositions", fmt.Sprintf("%s over $ref %q in %s (property %q, own branch marker %s): the merged type %s carries branch markers %v", r.Combo, r.Ref, r.FromTag, r.Prop, r.CB, ft, cbs))
				}
				continue
			}
			if r.PureAlias {
				// a reference to a definition that is only another name for a definition: untyped today - interface{}, or
				// (as array items) a named type declared as interface{}
				untyped := base == "interface{}"
				for _, g := range files {
					if g.Err == nil && g.Pkg == pkg {
						if t, ok := g.Decls["type "+base]; ok && strings.HasSuffix(strings.TrimSpace(t), " interface{}") {
							untyped = true
						}
					}
				}
				if untyped {
					continue
				}
			}
			th, ok := holder[toMk]
			if !ok {
				add("A", "target-not-emitted:"+r.Spelling, fmt.Sprintf("$ref %q (property %q of %s) should denote %s but package %s has no struct carrying it; field type is %s", r.Ref, r.Prop, h.name, toMk, meta.PkgOf[r.ModelTag], ft))
				continue
			}
			if th.name != base || th.pkg != pkg {
				actual := "no marker"
				for mk, hh := range holder {
					if hh.name == base && hh.pkg == pkg {
						actual = mk
					}
				}
				add("A", "ref-bound-to-wrong-target"+spellOrRel(r.Spelling, meta), fmt.Sprintf("$ref %q in %s (property %q) should denote %s (type %s.%s) but the field has type %s (package %s), which carries %s", r.Ref, r.FromTag, r.Prop, toMk, th.pkg, th.name, ft, pkg, actual))
				continue
			}
			key := r.ModelTag + "#" + r.ModelDef
			if old, ok := typeOf[key]; ok && old != pkg+"."+base {
				add("S", "referrers-use-different-types", fmt.Sprintf("target %s is %s for one referrer and %s for another", key, old, pkg+"."+base))
			}
			typeOf[key] = pkg + "." + base
		}
		// P: no by-value struct cycle
		if vc := valueCycle(files); vc != "" {
			cls := "by-value-type-cycle"
			if meta.Feat.ReqCycle {
				cls += ":world-with-required-recursive-ref"
			}
			add("P", cls, "struct types embed each other by value (invalid recursive type): "+vc)
		}
	}
	return dedupe(ds)
}

func hasStr(a []string, s string) bool {
	for _, x := range a {
		if x == s {
			return true
		}
	}
	return false
}

var cbTagRe = regexp.MustCompile(`:"(cb_[A-Za-z0-9_]+)[",]`)

// cbTags lists the distinct cb_ branch markers among the field tags of a declaration.
func cbTags(txt string) []string {
	seen := map[string]bool{}
	var out []string
	for _, m := range cbTagRe.FindAllStringSubmatch(txt, -1) {
		if !seen[m[1]] {
			seen[m[1]] = true
			out = append(out, m[1])
		}
	}
	sort.Strings(out)
	return out
}

func tailArgs(a []string) []string {
	if len(a) > 3 {
		return a[len(a)-3:]
	}
	return a
}

func failClass(stderr []byte) string {
	s := string(stderr)
	for _, k := range []string{"enum has non-primitive", "cannot resolve schema", "definition does not exist", "cannot load schema", "conflict", "no root", "could not merge", "invalid type"} {
		if strings.Contains(s, k) {
			return strings.ReplaceAll(k, " ", "-")
		}
	}
	return "other"
}

// valueCycle looks for a cycle among struct types that contain each other by
// value (such a program does not compile: invalid recursive type).
func valueCycle(files map[string]*GoFile) string {
	edges := map[string][]string{}
	for _, g := range files {
		if g.Err != nil {
			continue
		}
		for k, txt := range g.Decls {
			if !strings.HasPrefix(k, "type ") || !strings.Contains(txt, "struct {") {
				continue
			}
			name := g.Pkg + "." + strings.TrimPrefix(k, "type ")
			for _, line := range strings.Split(txt, "\n") {
				f := strings.Fields(strings.TrimSpace(line))
				if len(f) < 2 || strings.HasPrefix(f[0], "//") || f[0] == "type" || f[0] == "}" {
					continue
				}
				ty := f[1]
				if strings.HasPrefix(ty, "*") || strings.HasPrefix(ty, "[]") || strings.HasPrefix(ty, "map[") || strings.HasPrefix(ty, "interface") {
					continue
				}
				if !strings.Contains(ty, ".") {
					ty = g.Pkg + "." + ty
				}
				edges[name] = append(edges[name], ty)
			}
		}
	}
	state := map[string]int{}
	var path []string
	var found string
	var dfs func(n string) bool
	dfs = func(n string) bool {
		state[n] = 1
		path = append(path, n)
		for _, m := range edges[n] {
			if _, isStruct := edges[m]; !isStruct {
				continue
			}
			if state[m] == 1 {
				found = strings.Join(append(path, m), " -> ")
				return true
			}
			if state[m] == 0 && dfs(m) {
				return true
			}
		}
		path = path[:len(path)-1]
		state[n] = 2
		return false
	}
	var names []string
	for n := range edges {
		names = append(names, n)
	}
	sort.Strings(names)
	for _, n := range names {
		if state[n] == 0 && dfs(n) {
			return found
		}
	}
	return ""
}

func (p c10) Nontrivial(c *Case, outs []*Out) bool {
	var meta c10Meta
	_ = json.Unmarshal(c.Meta, &meta)
	for _, r := range meta.Refs {
		if !r.LocalOnly {
			return true
		}
	}
	return false
}

// spellOrRel: the spelling of the reference, unless the world has a merged cross-file target with relative
// references inside (KF-C10-2: they are resolved against the referrer's document, whatever the outer spelling)
func spellOrRel(spelling string, m c10Meta) string {
	if m.MergedRel {
		return ":merged-target-has-relative-ref"
	}
	return ":" + spelling
}

func relSuffix(m c10Meta) string {
	if m.MergedRel {
		return ":merged-target-has-relative-ref"
	}
	return ""
}

// hasRelativeRef: does the subtree contain a $ref that is not absolute?
// memoRescues narrows known finding KF-C10-2. The recorded defect: an allOf/anyOf branch $ref into another document
// merges the target's property nodes into a struct that the REFERRING document's generator builds, so a relative
// reference inside the target is resolved against the wrong document. It does not show when the generator already
// knows what that inner node stands for: the target is generated in full (by its own document's generator) before the
// merge, and a node that is just {"$ref": X} with X a named type is remembered per output (namedBySchema). So: every
// relative reference inside the merged target is the whole value of one of its top-level properties, denotes a
// definition or root that is an object (a named struct type), and target and referrer share one output - then the
// unchanged tree resolves it correctly and the world is judged in full (seeded changes s96 and s111 removed entries
// of that memo and were hidden behind the known finding's wider scope before).
func memoRescues(w *World, from, tf *SFile, sub any) bool {
	so, ok := sub.(Obj)
	if !ok || from.Pkg != tf.Pkg {
		return false
	}
	if o1, _ := expectedRouting(w, from); true {
		if o2, _ := expectedRouting(w, tf); o1 != o2 {
			return false
		}
	}
	rest := Obj{}
	for _, kv := range so {
		if kv.K != "properties" {
			rest = append(rest, kv)
			continue
		}
		po, ok := kv.V.(Obj)
		if !ok {
			return false
		}
		for _, p := range po {
			pv, ok := p.V.(Obj)
			if !ok {
				return false
			}
			if !hasRelativeRef(pv) {
				continue
			}
			ref, isRef := pv.Get("$ref")
			rs, isStr := ref.(string)
			if !isRef || !isStr || len(pv) != 1 {
				return false // an array of references, a combination, a reference with siblings ...
			}
			mt, md, ok := modelResolve(w, tf, rs)
			target := w.File(mt)
			if !ok || target == nil {
				return false
			}
			if md == "" {
				if !target.RootObj {
					return false
				}
				continue
			}
			isMarkerDef := false
			for _, d := range target.Defs {
				if d == md {
					isMarkerDef = true
				}
			}
			if !isMarkerDef {
				return false
			}
		}
	}
	return !hasRelativeRef(rest)
}

func hasRelativeRef(v any) bool {
	switch x := v.(type) {
	case Obj:
		for _, kv := range x {
			if kv.K == "$ref" {
				if s, ok := kv.V.(string); ok {
					t := strings.TrimPrefix(s, "file://")
					if !strings.HasPrefix(t, RootPH) && !strings.HasPrefix(t, "/") && !strings.HasPrefix(s, "http") {
						return true
					}
				}
			}
			if hasRelativeRef(kv.V) {
				return true
			}
		}
	case []any:
		for _, e := range x {
			if hasRelativeRef(e) {
				return true
			}
		}
	}
	return false
}

func hasIntegerEnum(v any) bool {
	switch x := v.(type) {
	case Obj:
		if t, _ := x.Get("type"); t == "integer" {
			if _, ok := x.Get("enum"); ok {
				return true
			}
		}
		for _, kv := range x {
			if hasIntegerEnum(kv.V) {
				return true
			}
		}
	case []any:
		for _, e := range x {
			if hasIntegerEnum(e) {
				return true
			}
		}
	}
	return false
}
