package sim

import (
	"bytes"
	"encoding/json"
	"fmt"
	"path/filepath"
	"sort"
	"strconv"
	"strings"

	"pgregory.net/rapid"

	"verifsim/simrt"
)

// C12: output is a deterministic function of schema content and options.
type c12 struct{}

func init() { Properties["C12"] = c12{} }

func (c12) ID() string    { return "C12" }
func (c12) Level() string { return "exploration" }
func (c12) Rule() string {
	return "Cases: rapid-drawn worlds (1-5 tagged schema files, JSON/YAML, refs/allOf/anyOf/enums/..., options) or golden-corpus worlds; " +
		"run 0 is the reference (sorted map order, whole reads); each variant run perturbs a drawn subset of: map-iteration order at the " +
		"map-order events seen in run 0 (reverse-all, rotate-all, explicit Fisher-Yates choices at one or several events), read chunk sizes, " +
		"relocation of the whole tree, key order inside every schema object, clock/env/pid/host, or nothing (repeat). Oracle: same exit class, " +
		"same output names (relative to the moved root), same bytes, same stdout. A case is non-trivial iff at least one variant actually iterated " +
		"a map of >=2 keys in a non-sorted order or delivered a read in more than one chunk; distinct = distinct hash of all run specs."
}

type c12Meta struct {
	Prefixes []string `json:"prefixes"` // per run: relocation prefix
	Kinds    []string `json:"kinds"`    // per run: perturbation label
	Feat     Feat     `json:"feat"`
}

var chunkChoices = [][]int{{1}, {2}, {3}, {7}, {13, 1}, {64}, {511}, {512}, {4096, 1}}

// (directory names may hold a '%': "Team%20A" is the NAME of a directory, not an encoding of "Team A" - seeded change s90)
var prefixChoices = []string{"/mnt/x", "/a/very/long/prefix/dir/for/the/tree", "/z", "/srv/Team%20A"}

func (p c12) Gen(t *rapid.T, env *Env) (*Case, []*Out) {
	maxFiles := 3
	k := 6
	if env.Thorough() {
		maxFiles, k = 5, 16
	}
	var w *World
	var args []string
	if rapid.IntRange(0, 9).Draw(t, "corpus") < 2 {
		w, args = GenCorpusWorld(t)
	}
	stdin := false
	if w == nil {
		SelfNamedDefs = true
		w = GenWorldOpt(t, maxFiles, false, true) // may reference one schema over (simulated) HTTP
		SelfNamedDefs = false
		args = drawArgs(t, w)
		// sometimes the first argument is delivered on standard input instead ("-")
		if afs := argFiles(w, args); len(afs) == len(args) && !afs[0].YAML && len(afs[0].Refs) == 0 && rapid.IntRange(0, 9).Draw(t, "stdin") == 0 {
			stdin = true
		}
	}
	// YAML mappings whose keys are not strings and collide once they are turned into strings (7 and 7.0, "true" and
	// True): which one survives must not depend on a map order. Duplicate keys make "the key order inside an object"
	// meaningful, so such worlds are not key-permuted.
	collide := false
	if afs := argFiles(w, args); !stdin && len(afs) > 0 && rapid.IntRange(0, 5).Draw(t, "yamlcollide") == 0 {
		for _, f := range afs {
			if !f.YAML || !f.RootObj {
				continue
			}
			props, _ := f.Doc.Get("properties")
			po, ok := props.(Obj)
			if !ok {
				continue
			}
			po = append(append(Obj{}, po...),
				KV{YAMLRawKey + "7", Obj{{"type", "integer"}}}, KV{YAMLRawKey + "7.0", Obj{{"type", "string"}}},
				KV{"true", Obj{{"type", "integer"}}}, KV{YAMLRawKey + "True", Obj{{"type", "boolean"}}},
				KV{YAMLRawKey + "0x10", Obj{{"type", "number"}}}, KV{"16", Obj{{"type", "array"}, {"items", Obj{{"type", "string"}}}}})
			nf := *f
			nf.Doc = append(Obj{}, f.Doc...).Set("properties", po)
			cp := *w
			cp.Files = append([]*SFile{}, w.Files...)
			for i := range cp.Files {
				if cp.Files[i] == f {
					cp.Files[i] = &nf
				}
			}
			w = &cp
			collide = true
			break
		}
	}
	// YAML plain scalars that a schema author did not mean: an unquoted null inside a type list (the YAML null value, not
	// the string "null") next to a default spelled yes / off (YAML 1.1 booleans; strings for this decoder). Whatever is
	// made of them must not depend on the order in which a decoded mapping is walked (seeded change s89).
	if afs := argFiles(w, args); !stdin && len(afs) > 0 && rapid.IntRange(0, 5).Draw(t, "yamlplain") == 0 {
		for _, f := range afs {
			if !f.YAML || !f.RootObj {
				continue
			}
			props, _ := f.Doc.Get("properties")
			po, ok := props.(Obj)
			if !ok {
				continue
			}
			po = append(append(Obj{}, po...),
				KV{f.Tag + "yn1", Obj{{"type", []any{"boolean", nil}}, {"default", RawJSON("yes")}}},
				KV{f.Tag + "yn2", Obj{{"default", RawJSON("off")}, {"type", []any{nil, "boolean"}}, {"description", "plain scalars"}}},
				KV{f.Tag + "yn3", Obj{{"type", []any{"string", nil}}, {"default", RawJSON("No")}}})
			nf := *f
			nf.Doc = append(Obj{}, f.Doc...).Set("properties", po)
			cp := *w
			cp.Files = append([]*SFile{}, w.Files...)
			for i := range cp.Files {
				if cp.Files[i] == f {
					cp.Files[i] = &nf
				}
			}
			w = &cp
			break
		}
	}
	// an allOf of two inline branches that both pin enums on the same properties (no value in common): the merged enums
	// are what the branches say, in branch order, whatever order the merge walks the properties in (seeded change s106: a
	// "values seen so far" set shared by all the lists of one merge)
	if afs := argFiles(w, args); !stdin && len(afs) > 0 && rapid.IntRange(0, 5).Draw(t, "enummerge") == 0 {
		for _, f := range afs {
			if !f.RootObj {
				continue
			}
			props, _ := f.Doc.Get("properties")
			po, ok := props.(Obj)
			if !ok {
				continue
			}
			en := func(vals ...any) Obj { return Obj{{"type", "string"}, {"enum", vals}} }
			b1 := Obj{{"type", "object"}, {"properties", Obj{{"state", en("new", "open")}, {"prio", en("low", "normal")}, {"kind", en("bug", "task")}}}}
			b2 := Obj{{"type", "object"}, {"properties", Obj{{"kind", en("urgent", "epic")}, {"state", en("urgent", "closed")}, {"prio", en("urgent", "high")}}}}
			po = append(append(Obj{}, po...), KV{f.Tag + "enm", Obj{{"type", "object"}, {"allOf", []any{b1, b2}}}})
			nf := *f
			nf.Doc = append(Obj{}, f.Doc...).Set("properties", po)
			cp := *w
			cp.Files = append([]*SFile{}, w.Files...)
			for i := range cp.Files {
				if cp.Files[i] == f {
					cp.Files[i] = &nf
				}
			}
			w = &cp
			break
		}
	}
	// an object default whose keys meet in one Go field name once they are turned into identifiers (user_id and userId,
	// the old and the new spelling side by side): whatever is emitted for it is a function of the document (seeded
	// change s113: a lookup table filled by ranging over the default object, last writer wins)
	if afs := argFiles(w, args); !stdin && len(afs) > 0 && rapid.IntRange(0, 5).Draw(t, "defaultkeys") == 0 {
		for _, f := range afs {
			if !f.RootObj {
				continue
			}
			props, _ := f.Doc.Get("properties")
			po, ok := props.(Obj)
			if !ok {
				continue
			}
			po = append(append(Obj{}, po...), KV{f.Tag + "dflt", Obj{{"type", "object"},
				{"properties", Obj{{"user_id", Obj{{"type", "integer"}}}, {"display-name", Obj{{"type", "string"}}}}},
				{"default", Obj{{"user_id", 1}, {"userId", 2}, {"display-name", "a"}, {"display_name", "b"}, {"Name", "c"}, {"name", "d"}}}}})
			nf := *f
			nf.Doc = append(Obj{}, f.Doc...).Set("properties", po)
			cp := *w
			cp.Files = append([]*SFile{}, w.Files...)
			for i := range cp.Files {
				if cp.Files[i] == f {
					cp.Files[i] = &nf
				}
			}
			w = &cp
			break
		}
	}
	// a JSON object with two keys that differ only in case ("description" and "Description"): encoding/json matches field
	// names case-insensitively, so both feed one field and the LAST one wins - key order becomes meaningful (known finding
	// KF-C12-1; the perturbation label says so)
	casedup := false
	if afs := argFiles(w, args); !collide && !stdin && len(afs) > 0 && rapid.IntRange(0, 11).Draw(t, "casedup") == 0 {
		for _, f := range afs {
			if f.YAML || !f.RootObj {
				continue
			}
			nf := *f
			d := append(Obj{}, f.Doc...)
			if _, ok := d.Get("description"); !ok {
				d = append(d, KV{"description", "lower-case spelling of the keyword"})
			}
			d = append(d, KV{"Description", "UPPER-CASE SPELLING OF THE KEYWORD"})
			nf.Doc = d
			cp := *w
			cp.Files = append([]*SFile{}, w.Files...)
			for i := range cp.Files {
				if cp.Files[i] == f {
					cp.Files[i] = &nf
				}
			}
			w = &cp
			casedup = true
			break
		}
	}
	env.Stats.NoteFeat(w.Feat)
	var respell func(t *rapid.T) []string
	if afs := argFiles(w, args); len(afs) == len(args) && len(afs) > 0 {
		respell = func(t *rapid.T) []string {
			var out []string
			for _, f := range afs {
				out = append(out, w.ArgFor(f, rapid.SampledFrom([]string{"rel", "dot", "abs"}).Draw(t, "respell")))
			}
			return out
		}
	}
	// a TWIN: the last argument exists a second time under another name (<stem>_tw<ext>, same bytes) and is given as one
	// more argument. Two names, one content - whether the two names are two files or two hard links to one file
	// (pnpm, ostree, cp -al, jdupes -L make such trees) is not content: the perturbation "hardlink" turns the copy
	// into a link and the bytes must stay what they were (seeded change s81: files identified by os.SameFile).
	var twinOf *SFile
	twinBase, hard := "", false
	if afs := argFiles(w, args); !stdin && !collide && !casedup && len(afs) == len(args) && len(afs) > 0 && rapid.IntRange(0, 5).Draw(t, "twin") == 0 {
		if f := afs[len(afs)-1]; f.URL == "" {
			twinOf = f
			ext := filepath.Ext(f.Base)
			twinBase = strings.TrimSuffix(f.Base, ext) + "_tw" + ext
		}
	}
	withTwin := func(prefix string, sp simrt.Spec) simrt.Spec {
		if twinOf == nil {
			return sp
		}
		orig := MapAbs(prefix, w.Root, filepath.Join(w.Root, twinOf.Rel()))
		for _, n := range sp.FS {
			if n.Path == orig && n.Kind == "f" {
				tw := simrt.Node{Path: filepath.Join(filepath.Dir(orig), twinBase), Kind: "f", Data: n.Data}
				if hard {
					tw = simrt.Node{Path: tw.Path, Kind: "h", Target: orig}
				}
				sp.FS = append(sp.FS, tw)
				last := sp.Args[len(sp.Args)-1]
				sp.Args = append(sp.Args, filepath.Join(filepath.Dir(last), twinBase))
				if strings.HasPrefix(last, "./") {
					sp.Args[len(sp.Args)-1] = "./" + sp.Args[len(sp.Args)-1]
				}
				break
			}
		}
		return sp
	}
	c := &Case{Prop: "C12"}
	meta := c12Meta{Feat: w.Feat}
	mkSpec := func(prefix string, ko *KeyOrder, a []string) simrt.Spec {
		if !stdin {
			return withTwin(prefix, w.Spec(prefix, ko, a))
		}
		f := argFiles(w, args)[0]
		var k *KeyOrder
		if ko != nil {
			k = &KeyOrder{Choices: ko.Choices}
		}
		sp := w.Spec(prefix, ko, append([]string{"-"}, a[1:]...))
		sp.Stdin = subst(RenderJSON(f.Doc, k), prefix, w.Root)
		return sp
	}
	spec0 := mkSpec("", nil, args)
	c.Runs = append(c.Runs, Run{Label: "reference", Spec: spec0})
	meta.Prefixes = append(meta.Prefixes, "")
	meta.Kinds = append(meta.Kinds, "reference")
	o0 := env.Exec(&c.Runs[0].Spec)
	outs := []*Out{o0}
	if !o0.HasRes || o0.TimedOut {
		env.Stats.Counters["reference_run_unusable"]++
		DebugDump("c12-unusable", &c.Runs[0].Spec, o0)
		return nil, nil
	}
	if o0.Res.Exit != 0 {
		DebugDump("c12-ref-exit", &c.Runs[0].Spec, o0)
	}
	var events []simrt.MapEv
	for _, m := range o0.Res.Maps {
		events = append(events, m)
	}
	nv := rapid.IntRange(1, k).Draw(t, "nvariants")
	for v := 0; v < nv; v++ {
		prefix := ""
		var ko *KeyOrder
		var kinds []string
		mode := rapid.IntRange(0, 11).Draw(t, "mode")
		hard = false
		if twinOf != nil && rapid.IntRange(0, 2).Draw(t, "hardlink") == 0 {
			mode = 12
		}
		vargs := args
		sp := simrt.Spec{}
		var stale []simrt.Node
		apply := func(mode int) {
			switch mode {
			case 0:
				kinds = append(kinds, "repeat")
			case 1:
				sp.MapDefault = "reverse"
				kinds = append(kinds, "map:reverse")
			case 2:
				sp.MapDefault = "rot"
				kinds = append(kinds, "map:rot")
			case 3, 4:
				if len(events) == 0 {
					kinds = append(kinds, "repeat")
					return
				}
				if sp.MapOrders == nil {
					sp.MapOrders = map[string][]int{}
				}
				if mode == 3 {
					e := events[rapid.IntRange(0, len(events)-1).Draw(t, "event")]
					sp.MapOrders[strconv.Itoa(e.Idx)] = drawChoices(t, e.N)
					kinds = append(kinds, "map:one:"+e.Site)
				} else {
					for _, e := range events {
						if rapid.Bool().Draw(t, "pick") {
							sp.MapOrders[strconv.Itoa(e.Idx)] = drawChoices(t, e.N)
						}
					}
					kinds = append(kinds, "map:multi")
				}
			case 5:
				sp.Chunks = rapid.SampledFrom(chunkChoices).Draw(t, "chunks")
				kinds = append(kinds, "chunks")
			case 6:
				prefix = rapid.SampledFrom(prefixChoices).Draw(t, "prefix")
				// a reference written as a file:// URL with the absolute location in it is a URL: there a '%' in a directory
				// name would have to be escaped, and whether it is decoded is the resolver's business - no '%' for such worlds
				absURL := false
				for _, f := range w.Files {
					if f.Doc != nil && bytes.Contains(f.Bytes(nil), []byte("file://"+RootPH)) {
						absURL = true
					}
				}
				noPct := func(p string) string {
					if absURL && strings.Contains(p, "%") {
						return "/relocated"
					}
					return p
				}
				prefix = noPct(prefix)
				if (w.Cwd == w.Root || strings.HasPrefix(w.Cwd, w.Root+"/")) && rapid.Bool().Draw(t, "rename") {
					// the schema directory also gets another NAME
					prefix = "=" + noPct(rapid.SampledFrom([]string{"/srv/schemas-copy", "/relocated", "/home/u/proj/api", "/data/v%31", "/data/100%25 done", "/sale/50%_off"}).Draw(t, "newroot"))
				}
				kinds = append(kinds, "reloc")
			case 7:
				if collide {
					kinds = append(kinds, "repeat")
					return
				}
				ko = &KeyOrder{Choices: rapid.SliceOfN(rapid.IntRange(0, 7), 1, 8).Draw(t, "keyperm")}
				if casedup {
					kinds = append(kinds, "keyperm:case-variant-keys")
				} else {
					kinds = append(kinds, "keyperm")
				}
			case 8:
				sp.Clock = int64(rapid.IntRange(1, 2000000000).Draw(t, "clock"))
				sp.Pid = rapid.IntRange(2, 99999).Draw(t, "pid")
				sp.Host = rapid.SampledFrom([]string{"hostA", "build-7", ""}).Draw(t, "host")
				sp.Env = map[string]string{"HOME": "/home/u" + strconv.Itoa(sp.Pid), "USER": "u", "LANG": "tr_TR.UTF-8",
					"TZ": rapid.SampledFrom([]string{"Asia/Tokyo", "Europe/Berlin", "America/New_York", "Asia/Kolkata"}).Draw(t, "tz")}
				kinds = append(kinds, "ambient")
			case 10:
				// the same files named differently on the command line (x.json, ./x.json, /abs/x.json)
				if respell == nil {
					kinds = append(kinds, "repeat")
					return
				}
				vargs = respell(t)
				kinds = append(kinds, "respell")
			case 11:
				// a repeated run into the same place: every output file of the reference run already exists, holding
				// something else (the previous, longer revision; an unrelated file; a torn copy; the very same bytes)
				refOut := Outputs(&c.Runs[0].Spec, o0)
				var names []string
				for n := range refOut {
					if n != "-" {
						names = append(names, n)
					}
				}
				if o0.Res.Exit != 0 || len(names) == 0 {
					kinds = append(kinds, "repeat")
					return
				}
				sort.Strings(names)
				for _, n := range names {
					old := refOut[n]
					switch rapid.IntRange(0, 6).Draw(t, "stale") {
					case 5:
						// the same file as a checkout with CRLF line ends holds it (seeded change s97: "keep the line endings
						// of the file that is replaced")
						old = bytes.ReplaceAll(old, []byte("\n"), []byte("\r\n"))
					case 6:
						old = append([]byte("\xef\xbb\xbf// saved by an editor that writes a byte-order mark\r\n"), old...)
					case 0:
						old = append(append([]byte(nil), old...), []byte("\n// trailing text of an earlier, longer revision\ntype StaleLeftover struct{ A, B, C int }\n")...)
					case 1:
						old = bytes.Repeat([]byte("unrelated file content, longer than anything generated here\n"), 400)
					case 2:
						old = old[:len(old)/2]
					case 3:
						old = []byte{}
					}
					stale = append(stale, simrt.Node{Path: n, Kind: "f", Data: old})
				}
				kinds = append(kinds, "rerun")
			case 12:
				hard = true
				kinds = append(kinds, "hardlink")
			case 9:
				// everything at once
				sp.MapDefault = "reverse"
				sp.Chunks = []int{1}
				prefix = prefixChoices[0]
				if collide || casedup {
					kinds = append(kinds, "map:reverse", "chunks", "reloc")
					return
				}
				ko = &KeyOrder{Choices: []int{3, 1, 2, 5}}
				kinds = append(kinds, "map:reverse", "chunks", "reloc", "keyperm")
			}
		}
		apply(mode)
		if env.Thorough() && mode != 9 && !(casedup && mode == 7) && rapid.IntRange(0, 3).Draw(t, "second") == 0 {
			m2 := rapid.IntRange(1, 8).Draw(t, "mode2")
			if casedup && m2 == 7 {
				m2 = 1 // the known finding keeps a label of its own
			}
			apply(m2)
		}
		base := mkSpec(prefix, ko, vargs)
		base.MapDefault, base.MapOrders, base.Chunks = sp.MapDefault, sp.MapOrders, sp.Chunks
		base.Clock, base.Pid, base.Host, base.Env = sp.Clock, sp.Pid, sp.Host, sp.Env
		for _, n := range stale {
			if prefix != "" {
				n.Path = MapAbs(prefix, w.Root, n.Path)
			}
			base.FS = append(base.FS, n)
		}
		label := strings.Join(kinds, "+")
		c.Runs = append(c.Runs, Run{Label: label, Spec: base})
		meta.Prefixes = append(meta.Prefixes, prefix)
		meta.Kinds = append(meta.Kinds, label)
		outs = append(outs, env.Exec(&c.Runs[len(c.Runs)-1].Spec))
	}
	hard = false
	// identical spec again, in processes that really run in parallel (GOMAXPROCS 4 and 16)
	for _, procs := range []string{"4", "16"} {
		c.Runs = append(c.Runs, Run{Label: "repeat:procs", Spec: mkSpec("", nil, args), Procs: procs})
		meta.Prefixes = append(meta.Prefixes, "")
		meta.Kinds = append(meta.Kinds, "identical-spec:unmodelled-source")
		outs = append(outs, env.ExecProcs(&c.Runs[len(c.Runs)-1].Spec, procs))
	}
	c.Meta, _ = json.Marshal(meta)
	env.sampleChecks(w, args, c)
	return c, outs
}

func drawChoices(t *rapid.T, n int) []int {
	ch := make([]int, n-1)
	for i := range ch {
		ch[i] = rapid.IntRange(0, n-1-i).Draw(t, "ch")
	}
	return ch
}

// drawArgs picks the file arguments: a non-empty subset of the world's files in
// a drawn order, each spelled independently.
func drawArgs(t *rapid.T, w *World) []string {
	idx := rapid.Permutation(intsUpTo(len(w.Files))).Draw(t, "argorder")
	n := rapid.IntRange(1, len(idx)).Draw(t, "nargs")
	var args []string
	for _, i := range idx[:n] {
		sp := rapid.SampledFrom([]string{"rel", "rel", "dot", "abs"}).Draw(t, "argspelling")
		args = append(args, w.ArgFor(w.Files[i], sp))
	}
	return args
}

func intsUpTo(n int) []int {
	a := make([]int, n)
	for i := range a {
		a[i] = i
	}
	return a
}

// relOutputs keys the outputs of a run by path relative to its prefix.
func relOutputs(r *Run, o *Out, prefix string) map[string][]byte {
	return relOutputsRoot(r, o, prefix, "/w")
}

func relOutputsRoot(r *Run, o *Out, prefix, root string) map[string][]byte {
	m := map[string][]byte{}
	for p, b := range Outputs(&r.Spec, o) {
		if p != "-" && prefix != "" {
			p = UnmapAbs(prefix, root, p)
		}
		m[p] = b
	}
	return m
}

func (p c12) Eval(c *Case, outs []*Out) []Discrepancy {
	var meta c12Meta
	_ = json.Unmarshal(c.Meta, &meta)
	var ds []Discrepancy
	if len(outs) == 0 || outs[0] == nil {
		return nil
	}
	ref := relOutputs(&c.Runs[0], outs[0], meta.Prefixes[0])
	for i := 1; i < len(outs); i++ {
		o := outs[i]
		kind := sigKind(meta.Kinds[i])
		if !o.HasRes || o.TimedOut {
			if outs[0].HasRes && !outs[0].TimedOut {
				ds = append(ds, Discrepancy{Sig: "C12|variant-died|" + kind, Detail: fmt.Sprintf("run %d (%s) died or timed out while the reference run ended normally: %s", i, meta.Kinds[i], clip(o.Stderr)), Runs: []int{0, i}})
			}
			continue
		}
		if (o.Res.Exit == 0) != (outs[0].Res.Exit == 0) {
			ds = append(ds, Discrepancy{Sig: "C12|exit-class|" + kind, Detail: fmt.Sprintf("run %d (%s) exit %d, reference exit %d; stderr %q", i, meta.Kinds[i], o.Res.Exit, outs[0].Res.Exit, clip(o.Stderr)), Runs: []int{0, i}})
			continue
		}
		got := relOutputs(&c.Runs[i], o, meta.Prefixes[i])
		if strings.Contains(meta.Kinds[i], "rerun") {
			// outputs existed before the run: what counts is what the files hold afterwards (a tool may
			// legitimately leave a file alone that already holds the right bytes)
			final := map[string][]byte{}
			for _, n := range o.Res.FS {
				if n.Kind != "d" {
					q := n.Path
					if meta.Prefixes[i] != "" {
						q = UnmapAbs(meta.Prefixes[i], "/w", q)
					}
					final[q] = n.Data
				}
			}
			for n := range ref {
				if b, ok := final[n]; ok && n != "-" {
					got[n] = b
				}
			}
		}
		var names []string
		for n := range ref {
			names = append(names, n)
		}
		for n := range got {
			if _, ok := ref[n]; !ok {
				names = append(names, n)
			}
		}
		sort.Strings(names)
		for _, n := range names {
			a, okA := ref[n]
			b, okB := got[n]
			switch {
			case okA != okB:
				ds = append(ds, Discrepancy{Sig: "C12|names-differ|" + kind, Detail: fmt.Sprintf("run %d (%s): output %q present in reference=%v, in variant=%v", i, meta.Kinds[i], n, okA, okB), Runs: []int{0, i}})
			case !bytes.Equal(a, b):
				ds = append(ds, Discrepancy{Sig: "C12|bytes-differ|" + kind, Detail: fmt.Sprintf("run %d (%s): output %q differs from the reference run: %s", i, meta.Kinds[i], n, firstDiff(a, b)), Runs: []int{0, i}})
			}
		}
	}
	return ds
}

// sigKind reduces a perturbation label to its class (site names of single-site
// permutations are kept: they are observable features, not seeds).
func sigKind(label string) string { return label }

func firstDiff(a, b []byte) string {
	la, lb := strings.Split(string(a), "\n"), strings.Split(string(b), "\n")
	for i := 0; i < len(la) || i < len(lb); i++ {
		var x, y string
		if i < len(la) {
			x = la[i]
		}
		if i < len(lb) {
			y = lb[i]
		}
		if x != y {
			return fmt.Sprintf("line %d: reference %q vs variant %q", i+1, x, y)
		}
	}
	return "lengths differ"
}

func (p c12) Nontrivial(c *Case, outs []*Out) bool {
	for i := 1; i < len(outs); i++ {
		o := outs[i]
		if o == nil || !o.HasRes {
			continue
		}
		for _, m := range o.Res.Maps {
			if m.Perm {
				return true
			}
		}
		if len(c.Runs[i].Spec.Chunks) > 0 {
			reads := map[string]int{}
			for _, e := range o.Res.Trace {
				if e.Op == "read" && e.N > 0 {
					reads[e.Path]++
					if reads[e.Path] > 1 {
						return true
					}
				}
			}
		}
	}
	return false
}
