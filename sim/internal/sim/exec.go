package sim

import (
	"bytes"
	"context"
	"crypto/sha256"
	"encoding/hex"
	"encoding/json"
	"io"
	"os"
	"os/exec"
	"sort"
	"strings"
	"sync/atomic"
	"time"

	"verifsim/simrt"
)

// Run is one simulated execution request.
type Run struct {
	Label string     `json:"label"`
	Spec  simrt.Spec `json:"spec"`
	// Procs: GOMAXPROCS of the simulated process ("" = 1). The program under test has
	// one goroutine; runs at 4/16 exist to expose a source the simulator does not own
	// (a newly introduced goroutine, pointer-address ordering): such a difference is a
	// violation of C12 all the same, but it can only be replayed statistically.
	Procs string `json:"procs,omitempty"`
}

// Out is what the orchestrator observed of one simulated process.
type Out struct {
	Res      simrt.Result
	HasRes   bool // result record received (false: the process died underneath the shell, e.g. fatal error)
	Exit     int  // real exit status (-1 killed)
	Stdout   []byte
	Stderr   []byte
	TimedOut bool
	Wall     time.Duration
}

// RunsExecuted counts simulated processes started by this orchestrator process.
var RunsExecuted atomic.Int64
var SimSteps atomic.Int64

// WallLimit is the watchdog for one simulated process (normal runs take ~5 ms).
var WallLimit = 20 * time.Second

// Exec runs the instrumented binary on spec.
func Exec(bin string, spec *simrt.Spec, gomaxprocs string) *Out {
	RunsExecuted.Add(1)
	in, _ := json.Marshal(spec)
	if gomaxprocs == "" {
		gomaxprocs = "1"
	}
	// starting a process can fail transiently on a loaded machine (EAGAIN, an expired
	// context): that is harness trouble, retried, never a verdict about the program
	var o *Out
	for attempt := 0; attempt < 4; attempt++ {
		var started bool
		o, started = execOnce(bin, in, gomaxprocs, spec.Env["TZ"])
		if started {
			break
		}
		time.Sleep(time.Duration(50*(attempt+1)) * time.Millisecond)
	}
	return o
}

func execOnce(bin string, in []byte, gomaxprocs, tz string) (*Out, bool) {
	ctx, cancel := context.WithTimeout(context.Background(), WallLimit)
	defer cancel()
	cmd := exec.CommandContext(ctx, bin)
	cmd.Stdin = bytes.NewReader(in)
	var so, se bytes.Buffer
	cmd.Stdout, cmd.Stderr = &so, &se
	pr, pw, err := os.Pipe()
	if err != nil {
		return &Out{TimedOut: true, Exit: -1}, false
	}
	cmd.ExtraFiles = []*os.File{pw}
	cmd.Env = []string{"GOMAXPROCS=" + gomaxprocs, "GOTRACEBACK=single", "PATH=/nonexistent"}
	if tz != "" {
		// the standard library reads TZ from the REAL environment (time.Local), behind the shim's back: the
		// simulated TZ is therefore also the real one of the simulated process
		cmd.Env = append(cmd.Env, "TZ="+tz)
	}
	if d := os.Getenv("GOCOVERDIR"); d != "" { // tools/reach.sh: a -cover build of simbin reports which code the runs reached
		cmd.Env = append(cmd.Env, "GOCOVERDIR="+d)
	}
	start := time.Now()
	o := &Out{}
	if err := cmd.Start(); err != nil {
		pw.Close()
		pr.Close()
		return &Out{TimedOut: true, Exit: -1}, false
	}
	pw.Close()
	resCh := make(chan []byte, 1)
	go func() {
		b, _ := io.ReadAll(pr)
		resCh <- b
	}()
	werr := cmd.Wait()
	raw := <-resCh
	pr.Close()
	o.Wall = time.Since(start)
	o.Stdout, o.Stderr = so.Bytes(), se.Bytes()
	if ctx.Err() != nil {
		o.TimedOut = true
	}
	if werr != nil {
		if ee, ok := werr.(*exec.ExitError); ok {
			o.Exit = ee.ExitCode()
		} else {
			o.Exit = -1
		}
	}
	if len(raw) > 0 && json.Unmarshal(raw, &o.Res) == nil {
		o.HasRes = true
		SimSteps.Add(int64(o.Res.Steps))
	}
	return o, true
}

// Fatal classifies a death underneath the process shell (no result record).
// With the simulator's caps (8 MB stack, 1 GB address space) unbounded recursion
// and unbounded allocation end as fast runtime fatal errors; the shipped binary
// would grind for minutes and then die the same way.
func (o *Out) Fatal() string {
	if o.HasRes {
		return ""
	}
	if o.TimedOut {
		return "watchdog"
	}
	s := string(o.Stderr)
	switch {
	case strings.Contains(s, "stack overflow") || strings.Contains(s, "stack exceeds"):
		return "stack-overflow"
	case strings.Contains(s, "out of memory") || strings.Contains(s, "cannot allocate"):
		return "out-of-memory"
	case strings.Contains(s, "fatal error:"):
		return "fatal-error"
	}
	return "died"
}

// Panicked reports a Go panic or runtime fatal error.
func (o *Out) Panicked() bool {
	if o.HasRes && o.Res.Panic != "" {
		return true
	}
	if !o.HasRes && !o.TimedOut {
		return true // died without passing through the shell: fatal error, signal, stack overflow
	}
	return false
}

// FilesAfter returns path -> content for regular files after the run.
func (o *Out) FilesAfter() map[string][]byte {
	m := map[string][]byte{}
	for _, n := range o.Res.FS {
		if n.Kind == "f" {
			m[n.Path] = n.Data
		}
	}
	return m
}

// FSDelta describes how the run changed regular files and symlinks relative to
// the initial file system of its spec.
type FSDelta struct {
	Created  map[string][]byte
	Modified map[string][]byte
	Removed  []string
	NewDirs  []string
}

func Delta(spec *simrt.Spec, o *Out) FSDelta {
	d := FSDelta{Created: map[string][]byte{}, Modified: map[string][]byte{}}
	before := map[string]simrt.Node{}
	for _, n := range spec.FS {
		before[n.Path] = n
	}
	for p, n := range before {
		if n.Kind == "h" { // a hard link reads as the file it names
			if t, ok := before[n.Target]; ok && t.Kind == "f" {
				before[p] = simrt.Node{Path: p, Kind: "f", Data: t.Data}
			}
		}
	}
	after := map[string]simrt.Node{}
	for _, n := range o.Res.FS {
		after[n.Path] = n
		b, ok := before[n.Path]
		switch {
		case n.Kind == "d":
			if !ok && !isParentOfAny(n.Path, spec) {
				d.NewDirs = append(d.NewDirs, n.Path)
			}
		case !ok:
			d.Created[n.Path] = n.Data
		case b.Kind != n.Kind || !bytes.Equal(b.Data, n.Data) || b.Target != n.Target:
			d.Modified[n.Path] = n.Data
		}
	}
	for p, b := range before {
		if _, ok := after[p]; !ok && b.Kind != "d" {
			d.Removed = append(d.Removed, p)
		}
	}
	sort.Strings(d.Removed)
	sort.Strings(d.NewDirs)
	return d
}

func isParentOfAny(dir string, spec *simrt.Spec) bool {
	if dir == spec.Cwd || strings.HasPrefix(spec.Cwd, dir+"/") {
		return true
	}
	for _, n := range spec.FS {
		if strings.HasPrefix(n.Path, dir+"/") {
			return true
		}
	}
	return false
}

func (d FSDelta) Empty() bool {
	return len(d.Created) == 0 && len(d.Modified) == 0 && len(d.Removed) == 0
}

// Outputs returns every file the run created or modified, keyed by absolute
// path, plus "-" for a non-empty stdout.
func Outputs(spec *simrt.Spec, o *Out) map[string][]byte {
	d := Delta(spec, o)
	m := map[string][]byte{}
	for k, v := range d.Created {
		m[k] = v
	}
	for k, v := range d.Modified {
		m[k] = v
	}
	if len(o.Stdout) > 0 {
		m["-"] = o.Stdout
	}
	return m
}

// Hash is the determinism witness of a run: exit, streams, file system, trace.
func (o *Out) Hash(withTrace bool) string {
	h := sha256.New()
	r := o.Res
	if !withTrace {
		r.Trace, r.Maps = nil, nil
	}
	r.Stack = "" // contains goroutine addresses
	b, _ := json.Marshal(&r)
	h.Write(b)
	h.Write([]byte{0})
	h.Write(o.Stdout)
	h.Write([]byte{0})
	if r.Panic == "" {
		h.Write(o.Stderr)
	}
	return hex.EncodeToString(h.Sum(nil))[:16]
}

// DebugDump writes a spec and what was observed to $VERIF_DEBUG_DIR (if set).
func DebugDump(name string, spec *simrt.Spec, o *Out) {
	dir := os.Getenv("VERIF_DEBUG_DIR")
	if dir == "" {
		return
	}
	_ = os.MkdirAll(dir, 0o755)
	b, _ := json.MarshalIndent(spec, "", " ")
	base := dir + "/" + name + "-" + shortHash(string(b))
	_ = os.WriteFile(base+".spec.json", b, 0o644)
	if o != nil {
		_ = os.WriteFile(base+".stderr", o.Stderr, 0o644)
		_ = os.WriteFile(base+".stdout", o.Stdout, 0o644)
	}
}
