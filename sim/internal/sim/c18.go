package sim

import (
	"bytes"
	"encoding/json"
	"fmt"
	"path/filepath"
	"sort"
	"strings"

	"pgregory.net/rapid"

	"verifsim/simrt"
)

// C18: the tool fails loudly and cleanly: never panics, never half-succeeds.
type c18 struct{}

func init() { Properties["C18"] = c18{} }

func (c18) ID() string    { return "C18" }
func (c18) Level() string { return "fault_enumeration" }
func (c18) Rule() string {
	return "Cases: a rapid-drawn or golden-corpus world plus one scenario. env-faults: run 0 is fault free; then ONE fault is injected at EVERY I/O step of " +
		"run 0's trace for every fault kind applicable to that operation (exhaustive per case; thorough adds drawn sequences of 2-3 faults). " +
		"content: one schema file is torn at a drawn offset / emptied / byte-flipped / replaced by a directory / given a null subschema / a '$ref':'#'. " +
		"defect: one ungeneratable element from the statement's catalogue (unknown type, $ref to missing definition or file, empty enum, non-primitive enum) " +
		"is injected at a drawn property / array item / definition position (also inside allOf/anyOf branches, also as a $ref branch), a third of them next to an inert keyword (not, readOnly, $comment, default null ...) in the same schema object. " +
		"odd: unusual but legal fragments (keywords with the wrong JSON type, tuple items, remote documents behind redirect chains and cycles ...), judged by T/S1/A only. " +
		"flags: malformed mapping flag, unknown flag, missing package, no arguments, missing argument file. recursive: valid worlds with reference cycles through allOf/anyOf. " +
		"Oracles: T never panics/dies/overruns the tick+memory budget; S0 exit 0 => outputs byte-identical to the fault-free run; S1 exit!=0 => stderr non-empty; " +
		"A no write-side fault and exit!=0 => stdout empty and no file created/modified/removed; M catalogue defects, unparsable inputs, bad flags, unreadable required inputs => exit!=0. " +
		"A case is non-trivial iff at least one injected fault fired inside an operation or a defect/content/flag mutation was applied; distinct = hash of all run specs."
}

type c18Run struct {
	Kind      string `json:"kind"`             // reference | fault | content | defect | flag | valid
	What      string `json:"what,omitempty"`   // fault kind / defect kind / content mutation / flag fault
	Op        string `json:"op,omitempty"`     // operation the fault was aimed at
	Target    string `json:"target,omitempty"` // stdin stdout stderr input output
	Pos       string `json:"pos,omitempty"`    // position class of a defect
	WriteSide bool   `json:"write_side,omitempty"`
	MustFail  bool   `json:"must_fail,omitempty"`
	MayFail   bool   `json:"may_fail,omitempty"`   // relaxed: clean failure or identical output
	NoCompare bool   `json:"no_compare,omitempty"` // the fault changes the effective content (torn YAML): exit 0 output is not comparable
	Ref       int    `json:"ref"`                  // index of the fault-free run of the same content (-1 none)
	Feature   string `json:"feature,omitempty"`    // observable content feature used in signatures
}

type c18Meta struct {
	Runs   []c18Run `json:"runs"`
	OutAbs []string `json:"out_abs,omitempty"`
}

// faultKindsFor lists the fault kinds applicable to an operation of the trace.
func faultKindsFor(ev simrt.Ev, writeHandles map[string]bool) (kinds []simrt.Fault, target string, writeSide bool) {
	f := func(kind string, arg int) simrt.Fault { return simrt.Fault{Step: ev.Seq, Kind: kind, Arg: arg} }
	switch ev.Op {
	case "stat", "lstat":
		return []simrt.Fault{f("errno:EACCES", 0), f("errno:EIO", 0), f("errno:ENOENT", 0)}, "input", false
	case "evalsymlinks", "readlink":
		return []simrt.Fault{f("errno:EACCES", 0), f("errno:ELOOP", 0), f("errno:EIO", 0)}, "input", false
	case "open":
		return []simrt.Fault{f("errno:ENOENT", 0), f("errno:EACCES", 0), f("errno:EMFILE", 0), f("errno:EIO", 0)}, "input", false
	case "read":
		if ev.Path == "/dev/stdin" {
			if ev.Err == "EOF" {
				// standard input is always parsed as JSON, which delimits itself: a writer that lingers after
				// the document must not keep the tool waiting
				return []simrt.Fault{f("errno:EIO", 0), f("stall", 0)}, "stdin", false
			}
			return []simrt.Fault{f("errno:EIO", 0), f("eof", 0)}, "stdin", false
		}
		return []simrt.Fault{f("errno:EIO", 0), f("eof", 0), f("errno:EISDIR", 0)}, "input", false
	case "close":
		if writeHandles[ev.Path] {
			return []simrt.Fault{f("errno:EIO", 0), f("errno:EDQUOT", 0)}, "output", true
		}
		return []simrt.Fault{f("errno:EIO", 0)}, "input", false
	case "openw":
		return []simrt.Fault{f("errno:EACCES", 0), f("errno:ENOSPC", 0), f("errno:EROFS", 0), f("errno:EISDIR", 0)}, "output", true
	case "mkdirall", "mkdir":
		return []simrt.Fault{f("errno:EACCES", 0), f("errno:ENOSPC", 0), f("errno:EROFS", 0)}, "output", true
	case "write":
		switch ev.Path {
		case "/dev/stderr":
			return []simrt.Fault{f("errno:EPIPE", 0)}, "stderr", false
		case "/dev/stdout":
			return []simrt.Fault{f("errno:EPIPE", 0), f("errno:EPIPE", ev.N/2), f("short", ev.N/2)}, "stdout", true
		}
		return []simrt.Fault{f("errno:ENOSPC", 0), f("errno:ENOSPC", ev.N/2), f("errno:EIO", 0), f("short", ev.N/3), f("lost", 0)}, "output", true
	case "http":
		return []simrt.Fault{f("neterr", 0), f("status:404", 0), f("status:500", 0), f("status:404s", 0), f("status:503s", 0)}, "input", false
	case "httpread":
		if ev.Err == "EOF" && strings.HasSuffix(strings.SplitN(ev.Path, "?", 2)[0], ".json") {
			return []simrt.Fault{f("neterr", 0), f("stall", 0)}, "input", false // a JSON body delimits itself too
		}
		return []simrt.Fault{f("neterr", 0), f("eof", 0)}, "input", false
	}
	return nil, "", false
}

// batteryWorld is a small fixed world (no randomness) on which the first case
// of shard 0 runs the WHOLE catalogue: every flag fault, every content fault at
// fixed offsets, every defect kind under every wrapper at a property position, at
// a definition, an array-item and a branch position, each $ref defect as an
// allOf/anyOf branch. A complete pass costs ~250 runs (about a second) and does
// not depend on the seed, so the basic must-fail cells are checked on every run.
func batteryWorld() (*World, []string) {
	str := Obj{{"type", "string"}}
	t1 := &SFile{Tag: "t1", Dir: "b", Base: "t1f.json", ID: "https://example.com/t1", RootObj: true, Defs: []string{"T1Da"}}
	t1.Doc = Obj{{"$id", t1.ID}, {"type", "object"}, {"properties", Obj{{"mk_t1", str}, {"t1p1", Obj{{"type", "integer"}, {"minimum", 0}}}}},
		{"$defs", Obj{{"T1Da", Obj{{"type", "object"}, {"properties", Obj{{"mk_t1_T1Da", str}}}}}}}}
	t0 := &SFile{Tag: "t0", Dir: "a", Base: "t0f.json", ID: "https://example.com/t0", RootObj: true, Defs: []string{"T0Da"}}
	t0.Doc = Obj{{"$id", t0.ID}, {"type", "object"},
		{"properties", Obj{
			{"mk_t0", str},
			{"t0p1", str},
			{"t0p2", Obj{{"type", "array"}, {"items", Obj{{"type", "integer"}}}}},
			{"t0p3", Obj{{"type", "object"}, {"properties", Obj{{"t0p4", str}}}}},
			{"t0p5", Obj{{"allOf", []any{Obj{{"type", "object"}, {"properties", Obj{{"t0b1", str}}}}, Obj{{"$ref", "#/$defs/T0Da"}}}}}},
			{"t0p6", Obj{{"anyOf", []any{Obj{{"type", "object"}, {"properties", Obj{{"t0b2", str}}}}, Obj{{"type", "object"}, {"properties", Obj{{"t0b3", str}}}}}}}},
			{"t0r7", Obj{{"$ref", "../b/t1f.json"}}},
			{"t0r8", Obj{{"$ref", "../b/t1f.json#/$defs/T1Da"}}},
		}},
		{"required", []any{"t0p1"}},
		{"$defs", Obj{{"T0Da", Obj{{"type", "object"}, {"properties", Obj{{"mk_t0_T0Da", str}, {"t0p9", Obj{{"type", "number"}}}}}}}}}}
	w := &World{Root: "/w", Cwd: "/w", Files: []*SFile{t0, t1}, Opts: Options{Package: "example.com/m/main", Output: "out/gen.go"}}
	w.Extra = append(w.Extra, simrt.Node{Path: "/w/out/gen.go", Kind: "f", Data: []byte("// OLD CONTENT\n")})
	return w, []string{"b/t1f.json", "a/t0f.json"}
}

func (p c18) battery(env *Env) (*Case, []*Out) {
	w, args := batteryWorld()
	c := &Case{Prop: "C18"}
	meta := c18Meta{OutAbs: []string{"/w/out/gen.go"}}
	var outs []*Out
	add := func(label string, spec simrt.Spec, mr c18Run) *Out {
		c.Runs = append(c.Runs, Run{Label: label, Spec: spec})
		meta.Runs = append(meta.Runs, mr)
		o := env.Exec(&c.Runs[len(c.Runs)-1].Spec)
		outs = append(outs, o)
		return o
	}
	add("unmodified", w.Spec("", nil, args), c18Run{Kind: "valid", Ref: -1})
	for _, k := range flagFaultKinds {
		buildFlagFault(w, args, k, add, "")
	}
	t0 := w.Files[0]
	for _, k := range contentFaultKinds {
		switch k {
		case "torn", "flip":
			for _, frac := range []int{0, 250, 500, 750, 999} {
				buildContentFault(w, args, t0, k, frac, 0x20, "", "", add, "")
			}
		case "garbage":
			for _, g := range garbageChoices {
				buildContentFault(w, args, t0, k, 0, 0, g, "", add, "")
			}
		case "null-subschema":
			for _, np := range nullPositions {
				buildContentFault(w, args, t0, k, 0, 0, "", np, add, "")
			}
		case "yaml-json-junk":
			y1 := *w.Files[1]
			y1.YAML, y1.Base = true, "t1f.yaml"
			wy := *w
			wy.Files = []*SFile{w.Files[0], &y1}
			for i := range yamlJSONJunk {
				buildContentFault(&wy, []string{"b/t1f.yaml"}, &y1, k, i, 0, "", "", add, "")
			}
		default:
			buildContentFault(w, args, t0, k, 0, 0, "", "", add, "")
		}
	}
	sites := collectSites(t0.Doc)
	seenClass := map[string]bool{}
	for _, s := range sites {
		if seenClass[s.class] {
			continue
		}
		seenClass[s.class] = true
		for _, k := range defectKinds {
			if strings.HasPrefix(s.class, "refbranch") {
				if !strings.HasPrefix(k, "ref-") {
					continue
				}
				for _, at := range []int{0, 1, 2} {
					buildDefect(w, args, t0, s, k, "none", at, add, "")
				}
				continue
			}
			for _, wr := range defectWraps[1:] {
				buildDefect(w, args, t0, s, k, wr, 0, add, "")
			}
		}
	}
	// every defect kind, unwrapped, at the first position class of each family, under other option sets: a check
	// that lives next to code which an option switches off (--only-models: no unmarshalers, no enum tables)
	// must not go with it
	optSets := []func(o *Options){
		func(o *Options) { o.OnlyModels = true },
		func(o *Options) { o.MinSized, o.Extra = true, true },
		func(o *Options) { o.OnlyModels, o.MinSized, o.TitleNames = true, true, true },
	}
	famSeen := map[string]bool{}
	for _, s := range sites {
		fam := s.class
		if i := strings.IndexAny(fam, ":+"); i >= 0 {
			fam = fam[:i]
		}
		if famSeen[fam] || strings.HasPrefix(s.class, "refbranch") {
			continue
		}
		famSeen[fam] = true
		for oi, set := range optSets {
			w2 := *w
			set(&w2.Opts)
			for _, k := range defectKinds {
				buildDefect(&w2, args, t0, s, k, "none", 0, func(label string, spec simrt.Spec, mr c18Run) *Out {
					return add(fmt.Sprintf("%s opts=%d", label, oi+1), spec, mr)
				}, "")
			}
		}
	}
	// every decoration next to every defect kind, unwrapped, at the first position class of each family
	famSeen = map[string]bool{}
	for _, s := range sites {
		fam := s.class
		if i := strings.IndexAny(fam, ":+"); i >= 0 {
			fam = fam[:i]
		}
		if famSeen[fam] {
			continue
		}
		famSeen[fam] = true
		for _, d := range defectDecorations {
			for _, k := range defectKinds {
				if strings.HasPrefix(s.class, "refbranch") && !strings.HasPrefix(k, "ref-") {
					continue
				}
				defectDeco = d.name
				buildDefect(w, args, t0, s, k, "none", 1, add, "")
				defectDeco = ""
			}
		}
	}
	// a second input whose root type name is already taken when its turn comes (same base name in another
	// directory; a definition of the first input named like the second's root type): every defect kind in the
	// second input's definitions and properties must still fail the run
	str := Obj{{"type", "string"}}
	for variant := 0; variant < 2; variant++ {
		i0 := &SFile{Tag: "i0", Dir: "a", Base: "item.json", RootObj: true, Defs: []string{"I0Da"}}
		i0.Doc = Obj{{"type", "object"}, {"properties", Obj{{"mk_i0", str}}}, {"$defs", Obj{{"I0Da", Obj{{"type", "object"}, {"properties", Obj{{"mk_i0_I0Da", str}}}}}}}}
		i1 := &SFile{Tag: "i1", Dir: "b", Base: "item.json", RootObj: true, Defs: []string{"I1Da"}}
		if variant == 1 {
			i1.Base = "other.json"
			i0.Doc = withDef(i0.Doc, "OtherJson", Obj{{"type", "object"}, {"properties", Obj{{"taken", str}}}})
		}
		i1.Doc = Obj{{"type", "object"}, {"properties", Obj{{"mk_i1", str}, {"i1p1", Obj{{"type", "integer"}}}}}, {"$defs", Obj{{"I1Da", Obj{{"type", "object"}, {"properties", Obj{{"mk_i1_I1Da", str}}}}}}}}
		w3 := &World{Root: "/w", Cwd: "/w", Files: []*SFile{i0, i1}, Opts: Options{Package: "example.com/m/main", Output: "out/gen.go"}}
		a3 := []string{"a/item.json", "b/" + i1.Base}
		add(fmt.Sprintf("root-name-taken variant %d unmodified", variant), w3.Spec("", nil, a3), c18Run{Kind: "valid", Ref: -1, Feature: "root-name-taken"})
		seen3 := map[string]bool{}
		for _, st := range collectSites(i1.Doc) {
			if seen3[st.class] || strings.HasPrefix(st.class, "refbranch") {
				continue
			}
			seen3[st.class] = true
			for _, k := range defectKinds {
				buildDefect(w3, a3, i1, st, k, "none", 0, add, "root-name-taken")
			}
		}
	}
	// several outputs, one of them in a package whose name is not a Go identifier (go/format cannot parse that file;
	// today: a warning, unformatted code, exit 0). Whatever the tool makes of it, it must not find out half-way through
	// writing: exit 0 with everything, or a failure that has touched nothing (seeded change s83 made it an error that
	// is raised per output, between the writes).
	for variant := 0; variant < 4; variant++ {
		u0 := &SFile{Tag: "u0", Dir: "a", Base: "u0f.json", ID: "https://example.com/u0", RootObj: true}
		u0.Doc = Obj{{"$id", u0.ID}, {"type", "object"}, {"properties", Obj{{"mk_u0", str}}}}
		u1 := &SFile{Tag: "u1", Dir: "a", Base: "u1f.json", ID: "https://example.com/u1", RootObj: true}
		u1.Doc = Obj{{"$id", u1.ID}, {"type", "object"}, {"properties", Obj{{"mk_u1", str}}}}
		u2 := &SFile{Tag: "u2", Dir: "a", Base: "u2f.json", ID: "https://example.com/u2", RootObj: true}
		u2.Doc = Obj{{"$id", u2.ID}, {"type", "object"}, {"properties", Obj{{"mk_u2", str}}}}
		w4 := &World{Root: "/w", Cwd: "/w", Files: []*SFile{u0, u1, u2}, Opts: Options{Package: "example.com/m/main", Output: "out/m.go"}}
		bad, good := "out/z/gen.go", "out/b/gen.go"
		switch variant {
		case 1:
			bad, good = "out/b/gen.go", "out/z/gen.go"
		case 2:
			w4.Opts.Output = "" // the default output is standard output
		case 3:
			w4.Opts.Package = "example.com/m/my main" // the default package is the one that cannot be formatted
			bad = "out/a/gen.go"
		}
		badPkg := "example.com/m/my-pk1"
		if variant == 3 {
			badPkg = "example.com/m/pk1"
		}
		w4.Opts.SchemaPkg = []Pair{{u1.ID, badPkg}, {u2.ID, "example.com/m/pk2"}}
		w4.Opts.SchemaOut = []Pair{{u1.ID, bad}, {u2.ID, good}}
		w4.Extra = append(w4.Extra, simrt.Node{Path: "/w/" + good, Kind: "f", Data: []byte("// OLD CONTENT, LONGER THAN WHAT WILL BE WRITTEN ........................................................................................................................................................................................\n")})
		for _, a4 := range [][]string{{"a/u0f.json", "a/u1f.json", "a/u2f.json"}, {"a/u2f.json", "a/u1f.json", "a/u0f.json"}} {
			add(fmt.Sprintf("several outputs, one unformattable, variant %d", variant), w4.Spec("", nil, a4), c18Run{Kind: "valid", Ref: -1, Feature: "several-outputs-one-unformattable"})
		}
	}
	// a $ref defect at a root property whose DERIVED type name (root type + property name: T0FJson + t0p1 -> T0FJsonT0P1) is
	// already held by an empty definition: the name being taken must not answer the reference (found on the unchanged
	// tree from a sub-agent's side note: the comparison behind "same name, same type?" ignored $ref, the missing
	// definition was never looked up, exit 0 - F-C18-12)
	{
		nf := *t0
		nf.Doc = withDef(cloneObj(t0.Doc), "T0FJsonT0P1", Obj{})
		w5 := *w
		w5.Files = []*SFile{&nf, w.Files[1]}
		for _, st := range collectSites(nf.Doc) {
			if st.key != "t0p1" || len(st.path) != 1 {
				continue
			}
			for _, k := range []string{"ref-missing-def", "ref-missing-file", "ref-nested-bad-def"} {
				buildDefect(&w5, args, &nf, st, k, "none", 0, add, "derived-name-held-by-empty-definition")
			}
		}
	}
	// every chain shape at depth 16 (a linear generator needs a few thousand ticks for it)
	for _, shape := range chainShapes {
		if shape == "anyof-two" {
			continue // KF-C18-1
		}
		nf := *t0
		nf.Doc = withChain(t0.Doc, shape, 16)
		spec := w.Spec("", nil, args)
		for i := range spec.FS {
			if spec.FS[i].Path == "/w/a/t0f.json" {
				spec.FS[i].Data = nf.Bytes(nil)
			}
		}
		add("deep chain "+shape+" depth 16", spec, c18Run{Kind: "valid", Ref: -1, Feature: "deep-chain:" + shape})
	}
	// every oddity alone at a property position, under two option sets
	for _, o := range oddities {
		for _, opt := range []int{0, 1} {
			if o.name == "ref-file-yaml-alias-bomb" && opt == 1 {
				continue // known finding KF-C18-2: one run is enough to keep it in view
			}
			w2 := *w
			if opt == 1 {
				w2.Opts.MinSized, w2.Opts.Extra = true, true
			}
			nf := *t0
			nf.Doc = addProp(withDef(withDef(cloneObj(t0.Doc), "OddTarget", Obj{{"type", "object"}, {"properties", Obj{{"x", Obj{{"type", "string"}}}}}}), "OddPrim", Obj{{"type", "string"}, {"minLength", 2}}), "odd0", o.v)
			spec := w2.Spec("", nil, args)
			spec.FS = append(spec.FS, oddFiles("/w/a")...)
			spec.Web = append(spec.Web, oddWeb()...)
			spec.Web = append(spec.Web, oddWeb()...)
			for i := range spec.FS {
				if spec.FS[i].Path == "/w/a/t0f.json" {
					spec.FS[i].Data = nf.Bytes(nil)
				}
			}
			add(fmt.Sprintf("odd %s opts=%d", o.name, opt), spec, c18Run{Kind: "odd", What: o.name, Ref: -1})
		}
		// ... and as a definition referenced twice (directly and as array items), and as a map's value schema
		if o.name == "ref-file-yaml-alias-bomb" {
			continue
		}
		nf := *t0
		d := withDef(withDef(cloneObj(t0.Doc), "OddTarget", Obj{{"type", "object"}, {"properties", Obj{{"x", Obj{{"type", "string"}}}}}}), "OddPrim", Obj{{"type", "string"}, {"minLength", 2}})
		d = withDef(d, "OddDef", o.v)
		d = addProp(d, "odd0", Obj{{"$ref", "#/$defs/OddDef"}})
		d = addProp(d, "odd1", Obj{{"type", "array"}, {"items", Obj{{"$ref", "#/$defs/OddDef"}}}})
		d = addProp(d, "odd2", Obj{{"type", "object"}, {"additionalProperties", o.v}})
		nf.Doc = d
		spec := w.Spec("", nil, args)
		spec.FS = append(spec.FS, oddFiles("/w/a")...)
		for i := range spec.FS {
			if spec.FS[i].Path == "/w/a/t0f.json" {
				spec.FS[i].Data = nf.Bytes(nil)
			}
		}
		add(fmt.Sprintf("odd %s as-def", o.name), spec, c18Run{Kind: "odd", What: o.name, Ref: -1})
	}
	c.Meta, _ = json.Marshal(meta)
	env.Stats.Counters["battery_runs"] += len(c.Runs)
	return c, outs
}

// Battery (shard 0 only, outside rapid: there is nothing to draw or shrink).
func (p c18) Battery(env *Env) (*Case, []*Out) { return p.battery(env) }

// Slice keeps the runs idx of a case (used to cut a battery violation down to the
// unmodified run plus the offending one).
func (p c18) Slice(c *Case, idx []int) *Case {
	var meta c18Meta
	_ = json.Unmarshal(c.Meta, &meta)
	nc := &Case{Prop: c.Prop}
	nm := c18Meta{OutAbs: meta.OutAbs}
	for _, i := range idx {
		nc.Runs = append(nc.Runs, c.Runs[i])
		mr := meta.Runs[i]
		if mr.Ref >= 0 {
			mr.Ref = 0
		}
		nm.Runs = append(nm.Runs, mr)
	}
	nc.Meta, _ = json.Marshal(nm)
	return nc
}

func (p c18) Gen(t *rapid.T, env *Env) (*Case, []*Out) {
	scenario := rapid.SampledFrom([]string{"env", "env", "env", "content", "defect", "defect", "defect", "flags", "recursive", "stdin", "odd", "odd", "deep"}).Draw(t, "scenario")
	var w *World
	var args []string
	maxFiles := 3
	if env.Thorough() {
		maxFiles = 4
	}
	if scenario == "env" && rapid.IntRange(0, 9).Draw(t, "corpus") < 2 {
		w, args = GenCorpusWorld(t)
	}
	if w == nil && scenario == "env" && rapid.IntRange(0, 3).Draw(t, "shadowworld") == 0 {
		// the layouts that make resolution ambiguous (two candidates for an extension-less reference, two files
		// under one relative spelling, odd file names, documents on the web): a fault while probing the
		// candidates must not silently select another one
		w = genWorld(t, maxFiles, false, false, true)
		args = drawArgs(t, w)
	}
	if w == nil {
		w = GenWorldOpt(t, maxFiles, scenario == "recursive", scenario == "env")
		args = drawArgs(t, w)
	}
	if scenario == "env" && len(w.Opts.SchemaOut) == 0 && rapid.IntRange(0, 15).Draw(t, "devstdout") == 0 {
		// the output named as the device file of a standard stream (-o /dev/stdout | gofmt): a pipe, not a regular file
		cp := *w
		cp.Opts.Output = rapid.SampledFrom([]string{"/dev/stdout", "/dev/fd/1"}).Draw(t, "devname")
		w = &cp
	}
	env.Stats.NoteFeat(w.Feat)
	// sometimes the output file exists already: a failing run must not touch it
	var outAbs []string
	if w.Opts.Output != "" && w.Opts.Output != "-" {
		abs := filepath.Join(w.Cwd, w.Opts.Output)
		outAbs = append(outAbs, abs)
		if rapid.IntRange(0, 9).Draw(t, "preexisting") < 4 {
			w.Extra = append(w.Extra, simrt.Node{Path: abs, Kind: "f", Data: []byte("// OLD CONTENT\n")})
		}
	}
	for _, p := range w.Opts.SchemaOut {
		if p.V != "-" && rapid.IntRange(0, 9).Draw(t, "preexistingmapped") < 3 {
			abs := p.V
			if !filepath.IsAbs(abs) {
				abs = filepath.Join(w.Cwd, abs)
			}
			dup := false
			for _, n := range w.Extra {
				if n.Path == abs {
					dup = true
				}
			}
			if !dup {
				w.Extra = append(w.Extra, simrt.Node{Path: abs, Kind: "f", Data: []byte("// OLD MAPPED CONTENT\n")})
			}
		}
	}
	c := &Case{Prop: "C18"}
	meta := c18Meta{OutAbs: outAbs}
	var outs []*Out
	add := func(label string, spec simrt.Spec, mr c18Run) *Out {
		c.Runs = append(c.Runs, Run{Label: label, Spec: spec})
		meta.Runs = append(meta.Runs, mr)
		o := env.Exec(&c.Runs[len(c.Runs)-1].Spec)
		if o.TimedOut { // a watchdog expiry under load must not become a verdict
			for i := 0; i < 2 && o.TimedOut; i++ {
				o = env.Exec(&c.Runs[len(c.Runs)-1].Spec)
			}
		}
		outs = append(outs, o)
		return o
	}
	feature := ""
	if hasRecursiveCombinator(w) {
		feature = "recursive-combinator"
	}

	switch scenario {
	case "env":
		// reads are delivered in drawn chunk sizes, so that read faults also land in
		// the middle of a stream (EIO after k bytes, body cut after k bytes)
		chunks := rapid.SampledFrom([][]int{nil, nil, {64}, {200}, {512}, {33, 7}}).Draw(t, "envchunks")
		baseSpec := w.Spec
		// and the whole case runs under one drawn map order, so that e.g. which output file
		// is written first (Sources() is a map) varies between cases
		mapDefault := rapid.SampledFrom([]string{"", "", "reverse", "rot"}).Draw(t, "envmaporder")
		wspec := func(prefix string, ko *KeyOrder, a []string) simrt.Spec {
			sp := baseSpec(prefix, ko, a)
			sp.Chunks = chunks
			sp.MapDefault = mapDefault
			return sp
		}
		spec0 := wspec("", nil, args)
		o0 := add("reference", spec0, c18Run{Kind: "reference", Ref: -1, Feature: feature})
		if !o0.HasRes {
			break
		}
		{
			// -v only adds progress lines on stderr: exit class, stdout and files must not change
			wv := *w
			wv.Opts.Verbose = true
			add("verbose", func() simrt.Spec {
				sp := wv.Spec("", nil, args)
				sp.Chunks, sp.MapDefault = chunks, mapDefault
				return sp
			}(), c18Run{Kind: "verbose", Ref: 0, Feature: feature})
		}
		if webAllJSON(&spec0) {
			// every HTTP body is JSON (self-delimiting): a server that neither announces a length nor closes
			// the connection must not keep the tool waiting
			sp := wspec("", nil, args)
			sp.HeldOpen = true
			add("held-open", sp, c18Run{Kind: "heldopen", Ref: 0, Feature: feature})
		}
		writeHandles := map[string]bool{}
		for _, ev := range o0.Res.Trace {
			if ev.Op == "openw" {
				writeHandles[ev.Path] = true
			}
		}
		for _, ev := range o0.Res.Trace {
			kinds, target, ws := faultKindsFor(ev, writeHandles)
			for _, f := range kinds {
				sp := wspec("", nil, args)
				sp.Faults = []simrt.Fault{f}
				mr := c18Run{Kind: "fault", What: f.Kind, Op: ev.Op, Target: target, WriteSide: ws, Ref: 0, Feature: feature}
				if f.Kind == "eof" && (strings.HasSuffix(ev.Path, ".yaml") || strings.HasSuffix(ev.Path, ".yml")) {
					mr.NoCompare = true // a prefix of a YAML document is often a YAML document
				}
				if f.Kind == "errno:ENOENT" && (ev.Op == "stat" || ev.Op == "lstat") {
					// "no such file" from stat is a statement about the world, not an error: probing the next
					// candidate (extension, spelling) is what the tool is supposed to do then
					mr.NoCompare = true
				}
				if target == "input" || target == "stdin" {
					mr.MayFail = true
					// an unreadable input the run needs must make it fail
					if ev.Op == "open" || (ev.Op == "read" && f.Kind != "eof") || ev.Op == "http" || (ev.Op == "httpread" && f.Kind == "neterr") {
						mr.MustFail = true
					}
				}
				add(fmt.Sprintf("fault %s@%d:%s", f.Kind, ev.Seq, ev.Op), sp, mr)
			}
		}
		if env.Thorough() && len(o0.Res.Trace) > 2 {
			nseq := rapid.IntRange(0, 6).Draw(t, "nseq")
			for i := 0; i < nseq; i++ {
				nf := rapid.IntRange(2, 3).Draw(t, "nfaults")
				sp := wspec("", nil, args)
				ws := false
				var what []string
				for j := 0; j < nf; j++ {
					ev := o0.Res.Trace[rapid.IntRange(0, len(o0.Res.Trace)-1).Draw(t, "fstep")]
					kinds, _, w2 := faultKindsFor(ev, writeHandles)
					if len(kinds) == 0 {
						continue
					}
					f := kinds[rapid.IntRange(0, len(kinds)-1).Draw(t, "fkind")]
					sp.Faults = append(sp.Faults, f)
					ws = ws || w2
					what = append(what, f.Kind+"@"+ev.Op)
				}
				if len(sp.Faults) < 2 {
					continue
				}
				add("faults "+strings.Join(what, ","), sp, c18Run{Kind: "fault", What: "multi", Op: "multi", Target: "multi", WriteSide: ws, MayFail: true, Ref: 0, Feature: feature})
			}
		}
	case "recursive":
		// plus, half of the time, a cycle of UNTYPED definitions that consist of nothing but
		// allOf/anyOf over same-document refs (Expr: anyOf[Paren, Literal]; Paren: allOf[Expr];
		// Literal: {properties}) in a drawn keyword / branch order
		if afs := argFiles(w, args); len(afs) > 0 && rapid.Bool().Draw(t, "untypedcycle") {
			f := afs[0]
			kw := func(l string) string { return rapid.SampledFrom([]string{"anyOf", "allOf"}).Draw(t, l) }
			frag := rapid.SampledFrom([]string{"#/$defs/", "#/definitions/"}).Draw(t, "ucfrag")
			if f.BothDefs {
				frag = "#/$defs/"
			}
			ref := func(n string) any { return Obj{{"$ref", frag + n}} }
			lit := Obj{{"properties", Obj{{"ucv", Obj{{"type", "string"}}}}}}
			if rapid.Bool().Draw(t, "uclittyped") {
				lit = append(Obj{{"type", "object"}}, lit...)
			}
			exprBranches := []any{ref("UcParen"), ref("UcLit")}
			if rapid.Bool().Draw(t, "ucorder") {
				exprBranches = []any{ref("UcLit"), ref("UcParen")}
			}
			parenBranches := []any{ref("UcExpr")}
			if rapid.Bool().Draw(t, "ucparen2") {
				parenBranches = append(parenBranches, ref("UcLit"))
			}
			doc := cloneObj(f.Doc)
			doc = withDef(doc, "UcExpr", Obj{{kw("uck1"), exprBranches}})
			doc = withDef(doc, "UcParen", Obj{{kw("uck2"), parenBranches}})
			doc = withDef(doc, "UcLit", lit)
			doc = addProp(doc, "ucroot", ref(rapid.SampledFrom([]string{"UcExpr", "UcParen"}).Draw(t, "ucentry")))
			nf := *f
			nf.Doc = doc
			for i, wf := range w.Files {
				if wf == f {
					cp := *w
					cp.Files = append([]*SFile{}, w.Files...)
					cp.Files[i] = &nf
					w = &cp
				}
			}
			feature = "untyped-combinator-cycle"
		}
		spec0 := w.Spec("", nil, args)
		add("valid-world", spec0, c18Run{Kind: "valid", Ref: -1, Feature: feature})
	case "odd":
		genOddities(t, w, args, add)
	case "deep":
		// a chain of definitions, each built from the previous one: the document grows linearly with the depth,
		// so must the work (bounded liveness: the tick / memory budgets are ~10x what a linear generator needs at
		// the largest depth drawn)
		if afs := argFiles(w, args); len(afs) > 0 {
			f := afs[0]
			shape := rapid.SampledFrom(chainShapes).Draw(t, "chainshape")
			maxk := 22
			if env.Thorough() {
				maxk = 40
			}
			k := rapid.IntRange(4, maxk).Draw(t, "chaindepth")
			if shape == "anyof-two" && k > 14 {
				k = 14 // known finding KF-C18-1 (path-by-path expansion): deeper chains only burn the budget
			}
			nf := *f
			nf.Doc = withChain(f.Doc, shape, k)
			for i, wf := range w.Files {
				if wf == f {
					cp := *w
					cp.Files = append([]*SFile{}, w.Files...)
					cp.Files[i] = &nf
					w = &cp
				}
			}
			feature = "deep-chain:" + shape
			add(fmt.Sprintf("deep chain %s depth %d", shape, k), w.Spec("", nil, args), c18Run{Kind: "valid", Ref: -1, Feature: feature})
		}
	case "stdin":
		// a schema on standard input ("-"), whole and torn
		f := w.Files[0]
		data := subst(RenderJSON(f.Doc, nil), "", w.Root)
		sp := w.Spec("", nil, []string{"-"})
		sp.Stdin = data
		o0 := add("stdin-reference", sp, c18Run{Kind: "reference", Ref: -1, Feature: feature})
		if o0.HasRes {
			for _, ev := range o0.Res.Trace {
				if ev.Op == "read" && ev.Path == "/dev/stdin" {
					for _, k := range []string{"errno:EIO", "eof"} {
						s2 := w.Spec("", nil, []string{"-"})
						s2.Stdin = data
						s2.Faults = []simrt.Fault{{Step: ev.Seq, Kind: k}}
						add("stdin-fault "+k, s2, c18Run{Kind: "fault", What: k, Op: "read", Target: "stdin", MayFail: true, MustFail: k != "eof", Ref: 0, Feature: feature})
					}
				}
			}
			{
				// the writer lingers: everything sent, the pipe stays open. JSON delimits itself - the tool must finish
				s4 := w.Spec("", nil, []string{"-"})
				s4.Stdin = data
				s4.HeldOpen = true
				s4.Chunks = rapid.SampledFrom([][]int{nil, {1}, {7}, {64}, {len(data)}, {len(data) - 1, 1}}).Draw(t, "heldchunks")
				add("stdin-held-open", s4, c18Run{Kind: "heldopen", Ref: 0, Feature: feature})
			}
			if len(data) > 2 {
				cut := rapid.IntRange(1, len(data)-2).Draw(t, "stdincut")
				s3 := w.Spec("", nil, []string{"-"})
				s3.Stdin = data[:cut]
				add("stdin-torn", s3, c18Run{Kind: "content", What: "torn-json", MustFail: true, Ref: -1, Feature: feature})
			}
		}
	case "content":
		genContentFault(t, w, args, add, feature)
	case "defect":
		genDefect(t, w, args, add, feature)
	case "flags":
		genFlagFault(t, w, args, add, feature)
	}
	c.Meta, _ = json.Marshal(meta)
	if len(c.Runs) == 0 {
		return nil, nil
	}
	if scenario == "env" {
		env.sampleChecks(w, args, c)
	}
	return c, outs
}

type addFn func(label string, spec simrt.Spec, mr c18Run) *Out

// argFiles returns the schema files named by args (generated worlds only).
func argFiles(w *World, args []string) []*SFile {
	var fs []*SFile
	for _, a := range args {
		p := strings.ReplaceAll(a, RootPH, w.Root)
		if !filepath.IsAbs(p) {
			p = filepath.Join(w.Cwd, p)
		}
		p = filepath.Clean(p)
		for _, f := range w.Files {
			if filepath.Join(w.Root, f.Rel()) == p {
				fs = append(fs, f)
			}
		}
	}
	return fs
}

var contentFaultKinds = []string{"torn", "empty", "flip", "dir", "garbage", "null-subschema", "ref-hash", "missing-arg", "dangling-symlink", "yaml-json-junk"}

// yamlJSONJunk: what a YAML-named file holds in the "yaml-json-junk" content fault - the document written as JSON
// (every JSON text is YAML) followed by something that makes the whole neither: a stray brace, or a second object
// without a document separator. A YAML reader rejects both; a reader that sniffs "starts with {" and hands the bytes
// to a JSON decoder, which stops after the first value, does not (seeded change s107).
var yamlJSONJunk = []string{"\n}\n", "\n{\"type\": \"object\", \"properties\": {\"x\": {\"$ref\": \"#/$defs/NoSuchDefinition\"}}}\n", "\n]]\n"}
var garbageChoices = []string{"\x00\x01\x02", "<html></html>", "[1,2,3]", "\"str\"", "42", "null", "{", "}{", "{\"type\":}", "\xff\xfe{}", "- a\n- b\n", "a: [\n"}
var nullPositions = []string{"prop", "def", "item", "anyOf", "allOf", "additionalProperties"}

func genContentFault(t *rapid.T, w *World, args []string, add addFn, feature string) {
	afs := argFiles(w, args)
	if len(afs) == 0 {
		return
	}
	// the fault-free run of the unmodified world, as a witness that the world is fine
	add("unmodified", w.Spec("", nil, args), c18Run{Kind: "valid", Ref: -1, Feature: feature})
	f := afs[rapid.IntRange(0, len(afs)-1).Draw(t, "cfile")]
	kind := rapid.SampledFrom(append([]string{"torn"}, contentFaultKinds...)).Draw(t, "ckind")
	frac := rapid.IntRange(0, 999).Draw(t, "cfrac")
	mask := rapid.SampledFrom([]int{0x01, 0x20, 0x80, 0xff}).Draw(t, "flipmask")
	garbage := rapid.SampledFrom(garbageChoices).Draw(t, "garbage")
	nullpos := rapid.SampledFrom(nullPositions).Draw(t, "nullpos")
	buildContentFault(w, args, f, kind, frac, mask, garbage, nullpos, add, feature)
}

// buildContentFault damages file f: frac (0..999) positions the cut / flip.
func buildContentFault(w *World, args []string, f *SFile, kind string, frac, mask int, garbage, nullpos string, add addFn, feature string) {
	abs := filepath.Join(w.Root, f.Rel())
	data := subst(f.Bytes(nil), "", w.Root)
	spec := w.Spec("", nil, args)
	replace := func(nd simrt.Node) {
		for i := range spec.FS {
			if spec.FS[i].Path == abs {
				spec.FS[i] = nd
			}
		}
	}
	mr := c18Run{Kind: "content", What: kind, Ref: -1, Feature: feature}
	switch kind {
	case "torn":
		if len(data) < 3 {
			return
		}
		cut := 1 + frac*(len(data)-2)/1000
		replace(simrt.Node{Path: abs, Kind: "f", Data: data[:cut]})
		if !f.YAML {
			mr.What = "torn-json"
			mr.MustFail = strings.TrimSpace(string(data[cut:])) != "" // a proper prefix of a JSON object is never a JSON value
		} else {
			mr.What = "torn-yaml"
		}
	case "empty":
		replace(simrt.Node{Path: abs, Kind: "f", Data: nil})
		mr.MustFail = !f.YAML
	case "flip":
		if len(data) == 0 {
			return
		}
		i := frac * len(data) / 1000
		d := append([]byte(nil), data...)
		d[i] ^= byte(mask)
		replace(simrt.Node{Path: abs, Kind: "f", Data: d})
	case "dir":
		replace(simrt.Node{Path: abs, Kind: "d"})
		mr.MustFail = true
	case "garbage":
		replace(simrt.Node{Path: abs, Kind: "f", Data: []byte(garbage)})
	case "null-subschema":
		pos := nullpos
		doc := cloneObj(f.Doc)
		switch pos {
		case "prop":
			props, _ := doc.Get("properties")
			po, _ := props.(Obj)
			doc = doc.Set("type", "object").Set("properties", append(po, KV{"nullprop", nil}))
		case "def":
			doc = withDef(doc, "NullDef", nil)
		case "item":
			doc = addProp(doc, "nullitem", Obj{{"type", "array"}, {"items", nil}})
		case "anyOf":
			doc = addProp(doc, "nullany", Obj{{"anyOf", []any{nil, Obj{{"type", "object"}, {"properties", Obj{{"q", Obj{{"type", "string"}}}}}}}}})
		case "allOf":
			doc = addProp(doc, "nullall", Obj{{"allOf", []any{Obj{{"type", "object"}, {"properties", Obj{{"q", Obj{{"type", "string"}}}}}}, nil}}})
		case "additionalProperties":
			doc = addProp(doc, "nulladdl", Obj{{"type", "object"}, {"additionalProperties", nil}})
		}
		mr.Pos = pos
		nf := *f
		nf.Doc = doc
		replace(simrt.Node{Path: abs, Kind: "f", Data: subst(nf.Bytes(nil), "", w.Root)})
	case "ref-hash":
		doc := addProp(cloneObj(f.Doc), "selfref", Obj{{"$ref", "#"}})
		nf := *f
		nf.Doc = doc
		replace(simrt.Node{Path: abs, Kind: "f", Data: subst(nf.Bytes(nil), "", w.Root)})
	case "missing-arg":
		var fs []simrt.Node
		for _, n := range spec.FS {
			if n.Path != abs {
				fs = append(fs, n)
			}
		}
		spec.FS = fs
		mr.MustFail = true
	case "dangling-symlink":
		replace(simrt.Node{Path: abs, Kind: "l", Target: "nowhere/at/all.json"})
		mr.MustFail = true
	case "yaml-json-junk":
		if !f.YAML {
			return // trailing bytes after a JSON value in a JSON-named file are ignored by design (streaming decoder)
		}
		junk := yamlJSONJunk[frac%len(yamlJSONJunk)]
		replace(simrt.Node{Path: abs, Kind: "f", Data: append(subst(RenderJSON(f.Doc, nil), "", w.Root), []byte(junk)...)})
		mr.MustFail = true
	}
	add("content "+mr.What, spec, mr)
}

func cloneObj(o Obj) Obj {
	b := RenderJSON(o, nil)
	v, err := ParseOrdered(b)
	if err != nil {
		panic(err)
	}
	return v.(Obj)
}

func defsKey(doc Obj) string {
	if _, ok := doc.Get("$defs"); ok {
		return "$defs" // the real block when a document has both keywords
	}
	if _, ok := doc.Get("definitions"); ok {
		return "definitions"
	}
	return "$defs"
}

func withDef(doc Obj, name string, v any) Obj {
	k := defsKey(doc)
	d, _ := doc.Get(k)
	do, _ := d.(Obj)
	return doc.Set(k, append(do, KV{name, v}))
}

// addProp adds a root property; a type-less root gets the property inside a new
// definition instead (only definitions of such documents are generated).
func addProp(doc Obj, name string, v any) Obj {
	if t, _ := doc.Get("type"); t == "object" {
		props, _ := doc.Get("properties")
		po, _ := props.(Obj)
		return doc.Set("properties", append(po, KV{name, v}))
	}
	return withDef(doc, "Holder"+name, Obj{{"type", "object"}, {"properties", Obj{{name, v}}}})
}

// ---- defect injection ----------------------------------------------------------

type site struct {
	path  []any // keys / indices from the document root to the container
	class string
	key   string // property name to replace ("" = container is the slot itself)
}

// collectSites walks the generated (i.e. reachable) part of a document.
func collectSites(doc Obj) []site {
	var out []site
	var visit func(s Obj, path []any, depth int)
	visit = func(s Obj, path []any, depth int) {
		if _, ok := s.Get("$ref"); ok {
			return
		}
		if _, ok := s.Get("enum"); ok {
			return
		}
		if _, ok := s.Get("goJSONSchema"); ok {
			return
		}
		ty, _ := s.Get("type")
		isObj := ty == "object"
		isArr := ty == "array"
		if isObj {
			if props, ok := s.Get("properties"); ok {
				if po, ok := props.(Obj); ok {
					for _, kv := range po {
						if strings.HasPrefix(kv.K, "mk_") {
							continue
						}
						out = append(out, site{path: append(append([]any{}, path...), "properties"), class: "prop", key: kv.K})
						if so, ok := kv.V.(Obj); ok && depth < 6 {
							visit(so, append(append([]any{}, path...), "properties", kv.K), depth+1)
						}
					}
				}
			}
		}
		if isArr {
			if it, ok := s.Get("items"); ok {
				out = append(out, site{path: append([]any{}, path...), class: "item", key: "items"})
				if so, ok := it.(Obj); ok && depth < 6 {
					visit(so, append(append([]any{}, path...), "items"), depth+1)
				}
			}
		}
		if isObj || ty == nil {
			for _, kw := range []string{"allOf", "anyOf"} {
				if br, ok := s.Get(kw); ok {
					if ba, ok := br.([]any); ok {
						out = append(out, site{path: append(append([]any{}, path...), kw), class: "refbranch:" + kw})
						// a property name that occurs in several branches is merged (first wins):
						// only names unique across the branches are positions that get generated
						count := map[string]int{}
						for _, b := range ba {
							if bo, ok := b.(Obj); ok {
								if props, ok := bo.Get("properties"); ok {
									if po, ok := props.(Obj); ok {
										for _, kv := range po {
											count[kv.K]++
										}
									}
								}
							}
						}
						if props, ok := s.Get("properties"); ok {
							if po, ok := props.(Obj); ok {
								for _, kv := range po {
									count[kv.K]++
								}
							}
						}
						for i, b := range ba {
							bo, ok := b.(Obj)
							if !ok {
								continue
							}
							if bt, _ := bo.Get("type"); bt != "object" {
								continue
							}
							if props, ok := bo.Get("properties"); ok {
								if po, ok := props.(Obj); ok {
									for _, kv := range po {
										if count[kv.K] == 1 {
											out = append(out, site{path: append(append([]any{}, path...), kw, i, "properties"), class: "branchprop:" + kw, key: kv.K})
										}
									}
								}
							}
						}
					}
				}
			}
		}
	}
	if t, _ := doc.Get("type"); t == "object" {
		visit(doc, nil, 0)
	}
	for _, k := range []string{"$defs", "definitions"} {
		if d, ok := doc.Get(k); ok {
			if do, ok := d.(Obj); ok {
				for _, kv := range do {
					if so, ok := kv.V.(Obj); ok {
						visit(so, []any{k, kv.K}, 1)
					}
				}
			}
			break
		}
	}
	out = append(out, site{class: "def"})
	return out
}

// setAt returns doc with fn applied to the container at path.
func setAt(v any, path []any, fn func(any) any) any {
	if len(path) == 0 {
		return fn(v)
	}
	switch k := path[0].(type) {
	case string:
		o := v.(Obj)
		cp := append(Obj{}, o...)
		for i := range cp {
			if cp[i].K == k {
				cp[i].V = setAt(cp[i].V, path[1:], fn)
			}
		}
		return cp
	case int:
		a := v.([]any)
		cp := append([]any{}, a...)
		cp[k] = setAt(cp[k], path[1:], fn)
		return cp
	}
	return v
}

var defectWraps = []string{"none", "none", "array-item", "array2-item", "object-prop", "anyOf-objbranch-first", "anyOf-objbranch-last",
	"anyOf-arraybranch-first", "anyOf-arraybranch-last", "allOf-objbranch-first", "allOf-objbranch-last"}

// wrapDefect places the ungeneratable element d at a property / array item
// position inside a larger subschema (the statement: "at any depth, including
// inside allOf/anyOf branches").
func wrapDefect(kind string, d any) any {
	obj := func(name string, v any) Obj { return Obj{{"type", "object"}, {"properties", Obj{{name, v}}}} }
	other := obj("zr", Obj{{"type", "string"}})
	switch kind {
	case "array-item":
		return Obj{{"type", "array"}, {"items", d}}
	case "array2-item":
		return Obj{{"type", "array"}, {"items", Obj{{"type", "array"}, {"items", d}}}}
	case "object-prop":
		return obj("zq", d)
	case "anyOf-objbranch-first":
		return Obj{{"anyOf", []any{obj("zq", d), other}}}
	case "anyOf-objbranch-last":
		return Obj{{"anyOf", []any{other, obj("zq", d)}}}
	case "anyOf-arraybranch-first":
		return Obj{{"anyOf", []any{Obj{{"type", "array"}, {"items", d}}, other}}}
	case "anyOf-arraybranch-last":
		return Obj{{"anyOf", []any{other, Obj{{"type", "array"}, {"items", d}}}}}
	case "allOf-objbranch-first":
		return Obj{{"allOf", []any{obj("zq", d), other}}}
	case "allOf-objbranch-last":
		return Obj{{"allOf", []any{other, obj("zq", d)}}}
	}
	return d
}

var defectKinds = []string{"unknown-type", "ref-missing-def", "ref-missing-file", "enum-empty", "enum-empty-typed", "enum-nonprimitive", "enum-nonprimitive-typed", "enum-nonprimitive-integer", "ref-nested-bad-def"}

func defectValue(kind string) any {
	switch kind {
	case "unknown-type":
		return Obj{{"type", "strng"}}
	case "ref-missing-def":
		return Obj{{"$ref", "#/$defs/NoSuchDefinition"}}
	case "ref-missing-file":
		return Obj{{"$ref", "./no-such-file.json"}}
	case "enum-empty":
		return Obj{{"enum", []any{}}}
	case "enum-empty-typed":
		return Obj{{"type", "string"}, {"enum", []any{}}}
	case "enum-nonprimitive":
		return Obj{{"enum", []any{"a", Obj{{"k", 1}}}}}
	case "enum-nonprimitive-typed":
		return Obj{{"type", "string"}, {"enum", []any{Obj{{"k", 1}}}}}
	case "enum-nonprimitive-integer":
		return Obj{{"type", "integer"}, {"enum", []any{[]any{1}}}}
	case "ref-nested-bad-def":
		// a reference into a NESTED definition that cannot be generated (an empty enum): today nested definitions cannot
		// be referred to at all, a tool that supports them has to look at what it finds there - the run fails either way
		// (seeded change s115: nested definitions became reachable, but only top-level ones are ever walked, and an
		// untyped one is answered with interface{} unseen). buildDefect adds the definition ZnOuter.
		return Obj{{"$ref", "#/$defs/ZnOuter/$defs/inner"}}
	}
	panic(kind)
}

// defectDecorations: keywords put NEXT TO the ungeneratable element, in the same schema object. They annotate or
// constrain instances and say nothing about how the element is generated; an element that cannot be generated
// still cannot be (seeded change s84: a property whose schema carries "not" was taken for the boolean schema false
// and skipped, errors and all).
var defectDecorations = []struct {
	name string
	kv   KV
}{
	{"not-empty", KV{"not", Obj{}}},
	{"not-null", KV{"not", Obj{{"type", "null"}}}},
	{"readonly", KV{"readOnly", true}},
	{"writeonly", KV{"writeOnly", true}},
	{"deprecated", KV{"deprecated", true}},
	{"comment", KV{"$comment", "kept for old clients"}},
	{"description", KV{"description", "An element with a description."}},
	{"title", KV{"title", "Decorated"}},
	{"examples", KV{"examples", []any{1, "x"}}},
	{"default-null", KV{"default", nil}},
	{"ifthen", KV{"if", Obj{{"type", "string"}}}},
	{"const-vendor", KV{"x-internal", true}},
}

// defectDeco is the decoration buildDefect adds to the next defect ("" = none); set and reset by its callers.
var defectDeco = ""

func genDefect(t *rapid.T, w *World, args []string, add addFn, feature string) {
	afs := argFiles(w, args)
	if len(afs) == 0 {
		return
	}
	add("unmodified", w.Spec("", nil, args), c18Run{Kind: "valid", Ref: -1, Feature: feature})
	f := afs[rapid.IntRange(0, len(afs)-1).Draw(t, "dfile")]
	sites := collectSites(f.Doc)
	// a third of the time the defect goes into a document that is not an argument but is referred to by one, as an
	// extra definition that no reference names: the tool walks a referenced document in full, and what it cannot
	// generate there fails the run like anywhere else (seeded change s118 turned that failure into a warning and went on
	// with a half-registered declaration)
	if rapid.IntRange(0, 2).Draw(t, "dreferenced") == 0 {
		isArg := map[string]bool{}
		for _, a := range afs {
			isArg[a.Tag] = true
		}
		var refd []*SFile
		for _, a := range afs {
			for _, r := range a.Refs {
				if tf := w.File(r.ToTag); tf != nil && !isArg[tf.Tag] && !isSpecial(tf) && tf.URL == "" && tf.Doc != nil && r.Combo == "" {
					refd = append(refd, tf)
				}
			}
		}
		if len(refd) > 0 {
			f = refd[rapid.IntRange(0, len(refd)-1).Draw(t, "dreffile")]
			var ds []site
			for _, st := range collectSites(f.Doc) {
				if strings.HasPrefix(st.class, "def") {
					ds = append(ds, st)
				}
			}
			if len(ds) == 0 {
				return
			}
			sites = ds
			feature += "referenced-only-document"
		}
	}
	s := sites[rapid.IntRange(0, len(sites)-1).Draw(t, "dsite")]
	kind := rapid.SampledFrom(defectKinds).Draw(t, "dkind")
	if strings.HasPrefix(s.class, "refbranch") {
		kind = rapid.SampledFrom([]string{"ref-missing-def", "ref-missing-file"}).Draw(t, "dkindref")
	}
	wrap := "none"
	if !strings.HasPrefix(s.class, "refbranch") {
		wrap = rapid.SampledFrom(defectWraps).Draw(t, "dwrap")
	}
	branchAt := rapid.IntRange(0, 8).Draw(t, "branchat")
	if di := rapid.IntRange(0, 3*len(defectDecorations)-1).Draw(t, "ddeco"); di < len(defectDecorations) {
		defectDeco = defectDecorations[di].name
		defer func() { defectDeco = "" }()
	}
	buildDefect(w, args, f, s, kind, wrap, branchAt, add, feature)
}

// buildDefect injects one catalogue defect of the given kind, wrapped as asked,
// at site s of file f and adds the run.
func buildDefect(w *World, args []string, f *SFile, s site, kind, wrap string, branchAt int, add addFn, feature string) {
	val := defectValue(kind)
	if defectDeco != "" {
		for _, d := range defectDecorations {
			if d.name == defectDeco {
				val = append(append(Obj{}, val.(Obj)...), d.kv)
				s.class += "~" + d.name
			}
		}
	}
	if !strings.HasPrefix(s.class, "refbranch") {
		if !strings.HasPrefix(s.class, "prop") && !strings.HasPrefix(s.class, "branchprop") && (strings.HasPrefix(wrap, "anyOf") || strings.HasPrefix(wrap, "allOf")) {
			// a type-less combinator at a declared-type position (definition, array items) is
			// mapped to interface{} without being visited: not "an element that cannot be
			// generated" in the statement's sense, hence not judged
			wrap = "object-prop"
		}
		val = wrapDefect(wrap, val)
		if wrap != "none" {
			s.class += "+" + wrap
		}
	}
	var doc Obj
	switch {
	case strings.HasPrefix(s.class, "def"):
		doc = withDef(cloneObj(f.Doc), strings.ToUpper(f.Tag[:1])+f.Tag[1:]+"Zbad", val)
	case strings.HasPrefix(s.class, "refbranch"):
		doc = setAt(f.Doc, s.path, func(v any) any {
			a := append([]any{}, v.([]any)...)
			i := branchAt % (len(a) + 1)
			return append(a[:i:i], append([]any{val}, a[i:]...)...)
		}).(Obj)
	case strings.HasPrefix(s.class, "item"):
		doc = setAt(f.Doc, s.path, func(v any) any { return append(Obj{}, v.(Obj)...).Set("items", val) }).(Obj)
	default:
		doc = setAt(f.Doc, s.path, func(v any) any { return append(Obj{}, v.(Obj)...).Set(s.key, val) }).(Obj)
	}
	if kind == "ref-nested-bad-def" {
		key := defsKey(doc)
		doc = withDef(doc, "ZnOuter", Obj{{"type", "object"}, {"properties", Obj{{"k", Obj{{"type", "string"}}}}}, {key, Obj{{"inner", Obj{{"enum", []any{}}}}}}})
		if key != "$defs" {
			b := bytes.ReplaceAll(RenderJSON(doc, nil), []byte("#/$defs/ZnOuter/$defs/inner"), []byte("#/"+key+"/ZnOuter/"+key+"/inner"))
			if v, err := ParseOrdered(b); err == nil {
				doc = v.(Obj)
			}
		}
	}
	nf := *f
	nf.Doc = doc
	abs := filepath.Join(w.Root, f.Rel())
	spec := w.Spec("", nil, args)
	for i := range spec.FS {
		if spec.FS[i].Path == abs {
			spec.FS[i].Data = subst(nf.Bytes(nil), "", w.Root)
		}
	}
	add("defect "+kind+"@"+s.class, spec, c18Run{Kind: "defect", What: kind, Pos: s.class, MustFail: true, Ref: -1, Feature: feature})
}

var flagFaultKinds = []string{"output-path-is-directory", "output-parent-is-file", "mapping-no-equals", "mapping-no-equals-output", "mapping-no-equals-root", "unknown-flag", "no-package", "no-args", "missing-file-arg", "flag-missing-value", "same-file-two-packages",
	"mapping-list-element-no-equals", "mapping-output-list-element-no-equals", "mapping-root-trailing-comma", "mapping-leading-comma", "mapping-empty-value-list"}

func genFlagFault(t *rapid.T, w *World, args []string, add addFn, feature string) {
	kind := rapid.SampledFrom(flagFaultKinds).Draw(t, "flagkind")
	buildFlagFault(w, args, kind, add, feature)
}

func buildFlagFault(w *World, args []string, kind string, add addFn, feature string) {
	w2 := *w
	o := w.Opts
	a := args
	writeSide := false
	switch kind {
	case "output-path-is-directory", "output-parent-is-file":
		// the output cannot be written: the run cannot end with status 0 (a write-side
		// failure: only T, S1 and "must fail" are judged). Only when every schema goes to
		// the default output: with id mappings the default output may never be written.
		if len(o.SchemaOut) > 0 || len(o.SchemaPkg) > 0 || len(o.SchemaRoot) > 0 {
			o.RawTrailing = []string{"--no-such-flag"}
			kind = "unknown-flag"
			break
		}
		if o.Output == "" || o.Output == "-" {
			o.Output = "out/gen.go"
		}
		abs := o.Output
		if !filepath.IsAbs(abs) {
			abs = filepath.Join(w.Cwd, abs)
		}
		if par := filepath.Dir(abs); kind == "output-parent-is-file" && (par == "/" || strings.HasPrefix(w.Cwd+"/", par+"/") || strings.HasPrefix(w.Root+"/", par+"/")) {
			// the parent is the root directory, the working directory or an ancestor of the schemas:
			// it cannot be turned into a file; give the output a directory of its own
			o.Output = "outp/gen.go"
			abs = filepath.Join(w.Cwd, o.Output)
		}
		var ex []simrt.Node
		for _, n := range w.Extra {
			if n.Path != abs {
				ex = append(ex, n)
			}
		}
		if kind == "output-path-is-directory" {
			ex = append(ex, simrt.Node{Path: abs, Kind: "d"})
		} else {
			ex = append(ex, simrt.Node{Path: filepath.Dir(abs), Kind: "f", Data: []byte("not a directory\n")})
		}
		w2.Extra = ex
		writeSide = true
	case "mapping-no-equals":
		o.RawTrailing = []string{"--schema-package", "https://example.com/nomapping"}
	case "mapping-no-equals-output":
		o.RawTrailing = []string{"--schema-output", "justafile.go"}
	case "mapping-no-equals-root":
		o.RawTrailing = []string{"--schema-root-type", "JustAName"}
	case "mapping-list-element-no-equals":
		// a comma-separated list whose second element is not URI=PACKAGE (exactly one "=" in the whole value)
		o.RawTrailing = []string{"--schema-package", "https://example.com/zz=example.com/m/zz,https://example.com/yy"}
	case "mapping-output-list-element-no-equals":
		o.RawTrailing = []string{"--schema-output", "https://example.com/zz=zz.go,yy.go"}
	case "mapping-root-trailing-comma":
		o.RawTrailing = []string{"--schema-root-type", "https://example.com/zz=Thing,"}
	case "mapping-leading-comma":
		o.RawTrailing = []string{"--schema-package", ",https://example.com/zz=example.com/m/zz"}
	case "mapping-empty-value-list":
		o.RawTrailing = []string{"--schema-output", "https://example.com/zz=zz.go,,"}
	case "unknown-flag":
		o.RawTrailing = []string{"--no-such-flag"}
	case "no-package":
		o.Package = ""
		o.SchemaPkg = nil
	case "no-args":
		a = nil
	case "missing-file-arg":
		a = append(append([]string{}, args...), "does/not/exist.json")
	case "flag-missing-value":
		a = append(append([]string{}, args...), "-o")
	case "same-file-two-packages":
		if len(w.Files) < 2 || w.Files[0].ID == "" || w.Files[1].ID == "" {
			o.RawTrailing = []string{"--no-such-flag"}
			kind = "unknown-flag"
			break
		}
		o.SchemaPkg = []Pair{{w.Files[0].ID, "example.com/m/pa"}, {w.Files[1].ID, "example.com/m/pb"}}
		o.SchemaOut = []Pair{{w.Files[0].ID, "out/same.go"}, {w.Files[1].ID, "out/same.go"}}
		a = []string{w.ArgFor(w.Files[0], "rel"), w.ArgFor(w.Files[1], "rel")}
	}
	w2.Opts = o
	add("flag "+kind, w2.Spec("", nil, a), c18Run{Kind: "flag", What: kind, MustFail: true, WriteSide: writeSide, Ref: -1, Feature: feature})
}

// hasRecursiveCombinator reports a reference cycle that runs through an
// allOf/anyOf branch $ref (local references only).
func hasRecursiveCombinator(w *World) bool {
	for _, f := range w.Files {
		defs := Obj{}
		for _, k := range []string{"$defs", "definitions"} {
			if d, ok := f.Doc.Get(k); ok {
				if do, ok := d.(Obj); ok {
					defs = do
				}
				break
			}
		}
		// edges: def -> defs referenced anywhere inside; comboEdges: via a combinator branch
		all := map[string]map[string]bool{}
		combo := map[string]map[string]bool{}
		var walk func(v any, from string, inCombo bool)
		walk = func(v any, from string, inCombo bool) {
			switch x := v.(type) {
			case Obj:
				if r, ok := x.Get("$ref"); ok {
					if rs, ok := r.(string); ok && strings.HasPrefix(rs, "#/") {
						to := rs[strings.LastIndex(rs, "/")+1:]
						if all[from] == nil {
							all[from] = map[string]bool{}
						}
						all[from][to] = true
						if inCombo {
							if combo[from] == nil {
								combo[from] = map[string]bool{}
							}
							combo[from][to] = true
						}
					}
				}
				for _, kv := range x {
					if kv.K == "allOf" || kv.K == "anyOf" {
						if a, ok := kv.V.([]any); ok {
							for _, b := range a {
								walk(b, from, true)
							}
						}
						continue
					}
					walk(kv.V, from, false)
				}
			case []any:
				for _, e := range x {
					walk(e, from, false)
				}
			}
		}
		for _, kv := range defs {
			walk(kv.V, kv.K, false)
		}
		// is there a combo edge a->b such that b reaches a?
		reach := func(src, dst string) bool {
			seen := map[string]bool{}
			st := []string{src}
			for len(st) > 0 {
				n := st[len(st)-1]
				st = st[:len(st)-1]
				if n == dst {
					return true
				}
				if seen[n] {
					continue
				}
				seen[n] = true
				for m := range all[n] {
					st = append(st, m)
				}
			}
			return false
		}
		for a, tos := range combo {
			for b := range tos {
				if reach(b, a) {
					return true
				}
			}
		}
	}
	return false
}

// ---- oracle ---------------------------------------------------------------------

func (p c18) Eval(c *Case, outs []*Out) []Discrepancy {
	var meta c18Meta
	_ = json.Unmarshal(c.Meta, &meta)
	var ds []Discrepancy
	for i, o := range outs {
		if i >= len(meta.Runs) || o == nil {
			continue
		}
		mr := meta.Runs[i]
		ctx := mr.Kind
		switch mr.Kind {
		case "fault":
			ctx = "fault:" + mr.What + "@" + mr.Op + ":" + mr.Target
		case "content":
			ctx = "content:" + mr.What
			if mr.Pos != "" {
				ctx += "@" + mr.Pos
			}
		case "defect":
			ctx = "defect:" + mr.What + "@" + mr.Pos
		case "flag":
			ctx = "flag:" + mr.What
		case "verbose":
			ctx = "verbose"
		case "heldopen":
			ctx = "stream-held-open"
		case "odd":
			ctx = "odd-but-valid:" + mr.What
		case "valid", "reference":
			ctx = "valid-input"
			if mr.Feature != "" {
				ctx += ":" + mr.Feature
			}
		}
		add := func(oracle, class, detail string) {
			ds = append(ds, Discrepancy{Sig: "C18|" + oracle + "|" + ctx + "|" + class, Detail: fmt.Sprintf("run %d (%s): %s", i, c.Runs[i].Label, detail), Runs: []int{i}})
		}
		// T: total
		if o.TimedOut {
			add("T", "hang:watchdog", "no exit within the wall-clock watchdog in three attempts")
			continue
		}
		if !o.HasRes {
			add("T", "died:"+o.Fatal(), "process died underneath the shell: "+clip(o.Stderr))
			continue
		}
		if o.Res.Panic != "" {
			add("T", "panic", "Go panic: "+o.Res.Panic+"\n"+clipStack(o.Res.Stack))
			continue
		}
		if o.Res.Overrun {
			add("T", "nontermination:"+o.Res.OverrunKind, fmt.Sprintf("budget exhausted after %d ticks (ordinary runs need < 25000)", o.Res.Ticks))
			continue
		}
		exit := o.Res.Exit
		// what the injected faults actually hit (a sequence of faults diverges from the
		// reference trace after the first one, so the plan is not authoritative)
		if mr.Kind == "fault" {
			openedW := map[string]bool{}
			for _, ev := range o.Res.Trace {
				if ev.Op == "openw" {
					openedW[ev.Path] = true
				}
			}
			nStderr, nFired := 0, 0
			for _, f := range o.Res.Fired {
				if !f.Misfit {
					nFired++
					if f.Path == "/dev/stderr" {
						nStderr++
					}
				}
			}
			for _, f := range o.Res.Fired {
				if f.Misfit {
					continue
				}
				switch {
				case f.Path == "/dev/stderr":
					if nStderr == nFired {
						mr.Target = "stderr"
					} else {
						mr.Target = "multi+stderr"
					}
				case f.Op == "openw" || f.Op == "mkdirall" || f.Op == "mkdir" || f.Op == "write" || f.Fault.Kind == "lost" || (f.Op == "close" && openedW[f.Path]):
					mr.WriteSide = true
				}
				if f.Fault.Kind == "eof" && (strings.HasSuffix(f.Path, ".yaml") || strings.HasSuffix(f.Path, ".yml")) {
					mr.NoCompare = true
				}
				if f.Fault.Kind == "errno:ENOENT" && (f.Op == "stat" || f.Op == "lstat") {
					mr.NoCompare = true
				}
			}
		}
		// S1
		if exit != 0 && len(bytes.TrimSpace(o.Stderr)) == 0 && !(mr.Kind == "fault" && strings.HasSuffix(mr.Target, "stderr")) {
			add("S1", "silent-failure", fmt.Sprintf("exit %d with empty stderr", exit))
		}
		// a replay on a different tree may land the fault on another operation than
		// the one it was enumerated for: then only T/S1/A are judged
		aligned := true
		if mr.Kind == "fault" && mr.Op != "multi" {
			for _, f := range o.Res.Fired {
				if !f.Misfit && f.Op != mr.Op {
					aligned = false
				}
			}
		}
		// M
		if mr.MustFail && exit == 0 && aligned {
			add("M", "exit0", "the run must fail but exited 0; stderr: "+clip(o.Stderr))
		}
		delta := Delta(&c.Runs[i].Spec, o)
		// A: pre-output failures are atomic
		if exit != 0 && !mr.WriteSide {
			if len(o.Stdout) > 0 {
				add("A", "stdout-on-failure", fmt.Sprintf("exit %d but %d bytes on stdout: %q", exit, len(o.Stdout), clip(o.Stdout)))
			}
			if !delta.Empty() {
				add("A", "files-touched-on-failure", fmt.Sprintf("exit %d but created=%v modified=%v removed=%v", exit, keys(delta.Created), keys(delta.Modified), delta.Removed))
			}
		}
		// A2: a failure while writing may leave a designated output incomplete, but nothing ELSE: no file is created
		// or modified that the command line does not name as an output (temporary files, backups, caches)
		if exit != 0 && mr.WriteSide {
			want := designatedOutputs(&c.Runs[i].Spec)
			var stray []string
			for _, p := range append(keys(delta.Created), keys(delta.Modified)...) {
				if !want[filepath.Clean(p)] {
					stray = append(stray, p)
				}
			}
			if len(stray) > 0 {
				add("A", "stray-files-after-write-failure", fmt.Sprintf("exit %d; files that are not outputs of this command line were created or modified: %v", exit, stray))
			}
		}
		// S0 / relaxed M: compare with the fault-free run of the same content
		if aligned && mr.Ref >= 0 && mr.Ref < len(outs) && outs[mr.Ref] != nil && outs[mr.Ref].HasRes {
			ref := outs[mr.Ref]
			if mr.Target == "stderr" {
				if (exit == 0) != (ref.Res.Exit == 0) {
					add("S0", "exit-changed-by-stderr-fault", fmt.Sprintf("exit %d, fault-free exit %d", exit, ref.Res.Exit))
				}
			}
			if exit == 0 && ref.Res.Exit == 0 && !mr.NoCompare {
				want := Outputs(&c.Runs[mr.Ref].Spec, ref)
				got := Outputs(&c.Runs[i].Spec, o)
				// a pre-existing output file that the run rewrote with identical bytes counts as present
				for _, n := range sortedNames(want, got) {
					a, okA := want[n]
					b, okB := got[n]
					if !okB && okA {
						// maybe unchanged pre-existing content equals expectation
						if cur, ok := o.FilesAfter()[n]; ok && bytes.Equal(cur, a) {
							continue
						}
						add("S0", "exit0-output-missing", fmt.Sprintf("exit 0 but output %q of the fault-free run is missing", n))
					} else if okA && okB && !bytes.Equal(a, b) {
						add("S0", "exit0-output-incomplete", fmt.Sprintf("exit 0 but output %q differs from the fault-free run (%d vs %d bytes)", n, len(b), len(a)))
					} else if !okA && okB {
						add("S0", "exit0-output-extra", fmt.Sprintf("exit 0 with output %q that the fault-free run does not produce", n))
					}
				}
			}
			if mr.Kind == "heldopen" && (exit == 0) != (ref.Res.Exit == 0) {
				add("S0", "held-open-changes-exit", fmt.Sprintf("exit %d with the stream held open, %d when it is closed", exit, ref.Res.Exit))
			}
			if mr.Kind == "verbose" && (exit == 0) != (ref.Res.Exit == 0) {
				add("S0", "verbose-changes-exit", fmt.Sprintf("exit %d with -v, %d without", exit, ref.Res.Exit))
			}
			if exit == 0 && ref.Res.Exit != 0 && mr.Kind == "fault" && !mr.NoCompare {
				add("S0", "fault-turned-failure-into-success", fmt.Sprintf("fault-free run exits %d, faulted run exits 0", ref.Res.Exit))
			}
		}
	}
	return ds
}

var chainShapes = []string{"allof-ref+prop", "anyof-ref+prop", "prop-twice", "items", "allof-two", "addl", "anyof-two"}

// withChain adds definitions Ch0..Chk (each built from its predecessor(s) in the given shape) and a property that
// refers to the last one.
func withChain(doc Obj, shape string, k int) Obj {
	doc = cloneObj(doc)
	ref := func(i int) any { return Obj{{"$ref", fmt.Sprintf("#/$defs/Ch%d", i)}} }
	doc = withDef(doc, "Ch0", Obj{{"type", "object"}, {"properties", Obj{{"x0", Obj{{"type", "string"}}}}}})
	for i := 1; i <= k; i++ {
		x := fmt.Sprintf("x%d", i)
		var d Obj
		switch shape {
		case "allof-ref+prop":
			d = Obj{{"type", "object"}, {"allOf", []any{ref(i - 1), Obj{{"properties", Obj{{x, ref(i - 1)}}}}}}}
		case "anyof-ref+prop":
			d = Obj{{"type", "object"}, {"anyOf", []any{ref(i - 1), Obj{{"type", "object"}, {"properties", Obj{{x, ref(i - 1)}}}}}}}
		case "prop-twice":
			d = Obj{{"type", "object"}, {"properties", Obj{{x + "a", ref(i - 1)}, {x + "b", ref(i - 1)}}}}
		case "items":
			d = Obj{{"type", "array"}, {"items", ref(i - 1)}}
		case "allof-two":
			j := i - 2
			if j < 0 {
				j = 0
			}
			d = Obj{{"type", "object"}, {"allOf", []any{ref(i - 1), ref(j), Obj{{"properties", Obj{{x, Obj{{"type", "integer"}}}}}}}}}
		case "anyof-two":
			j := i - 2
			if j < 0 {
				j = 0
			}
			d = Obj{{"type", "object"}, {"anyOf", []any{ref(i - 1), ref(j)}}}
		default: // addl
			d = Obj{{"type", "object"}, {"additionalProperties", ref(i - 1)}}
		}
		doc = withDef(doc, fmt.Sprintf("Ch%d", i), d)
	}
	return addProp(doc, "chaintop", ref(k))
}

// designatedOutputs: the files the command line names as outputs (-o / --output / --schema-output ID=FILE), as
// cleaned absolute paths.
func designatedOutputs(sp *simrt.Spec) map[string]bool {
	out := map[string]bool{}
	add := func(v string) {
		if v == "" || v == "-" {
			return
		}
		if !filepath.IsAbs(v) {
			v = filepath.Join(sp.Cwd, v)
		}
		out[filepath.Clean(v)] = true
	}
	for i := 0; i < len(sp.Args); i++ {
		a := sp.Args[i]
		val := func() string {
			if j := strings.Index(a, "="); j >= 0 && strings.HasPrefix(a, "--") {
				return a[j+1:]
			}
			if i+1 < len(sp.Args) {
				i++
				return sp.Args[i]
			}
			return ""
		}
		switch {
		case a == "-o" || a == "--output" || strings.HasPrefix(a, "--output="):
			add(val())
		case strings.HasPrefix(a, "-o") && !strings.HasPrefix(a, "--") && len(a) > 2:
			add(a[2:])
		case a == "--schema-output" || strings.HasPrefix(a, "--schema-output="):
			for _, el := range strings.Split(val(), ",") {
				if j := strings.LastIndex(el, "="); j >= 0 {
					add(el[j+1:])
				}
			}
		}
	}
	return out
}

// webAllJSON: the world has documents on the simulated web and all of them are parsed as JSON.
func webAllJSON(sp *simrt.Spec) bool {
	if len(sp.Web) == 0 {
		return false
	}
	for _, e := range sp.Web {
		u := strings.SplitN(e.URL, "?", 2)[0]
		if !strings.HasSuffix(u, ".json") || strings.Contains(e.ContentType, "yaml") {
			return false
		}
	}
	return true
}

func clipStack(s string) string {
	var keep []string
	for _, l := range strings.Split(s, "\n") {
		if strings.Contains(l, "go-jsonschema/") && !strings.Contains(l, "simrt") {
			keep = append(keep, strings.TrimSpace(l))
		}
		if len(keep) >= 6 {
			break
		}
	}
	return strings.Join(keep, "\n")
}

func keys(m map[string][]byte) []string {
	var ks []string
	for k := range m {
		ks = append(ks, k)
	}
	sort.Strings(ks)
	return ks
}

func sortedNames(a, b map[string][]byte) []string {
	seen := map[string]bool{}
	var ns []string
	for k := range a {
		if !seen[k] {
			seen[k] = true
			ns = append(ns, k)
		}
	}
	for k := range b {
		if !seen[k] {
			seen[k] = true
			ns = append(ns, k)
		}
	}
	sort.Strings(ns)
	return ns
}

func (p c18) Nontrivial(c *Case, outs []*Out) bool {
	var meta c18Meta
	_ = json.Unmarshal(c.Meta, &meta)
	for i, o := range outs {
		if o == nil || i >= len(meta.Runs) {
			continue
		}
		switch meta.Runs[i].Kind {
		case "content", "defect", "flag", "odd":
			return true
		case "fault":
			for _, f := range o.Res.Fired {
				if !f.Misfit {
					return true
				}
			}
		case "valid":
			if meta.Runs[i].Feature != "" {
				return true
			}
		}
	}
	return false
}

// ---- unusual but valid content -------------------------------------------------------

// oddities are schema fragments that are legal JSON Schema (or at least legal
// JSON that real schemas contain) but off the beaten track. Nothing is demanded
// of them except the T, S1 and A clauses: the tool may accept or reject them,
// never crash, hang, or fail half-way.
var oddityTexts = []struct{ name, json string }{
	// a keyword whose value has another JSON type than usual: the tuple form of items (drafts 3 to 2019-09), empty
	// or not; arrays, strings and numbers where a subschema, a list or a name is expected. Accepting or rejecting is
	// the tool's choice - crashing is not (seeded change s99: an empty tuple indexed without a length check)
	{"items-empty-tuple", "{\"type\": \"array\", \"items\": []}"},
	{"items-tuple", "{\"type\": \"array\", \"items\": [{\"type\": \"string\"}, {\"type\": \"integer\"}]}"},
	{"items-tuple-same", "{\"type\": \"array\", \"items\": [{\"type\": \"string\"}, {\"type\": \"string\"}]}"},
	{"items-tuple-of-one", "{\"type\": \"array\", \"items\": [{\"type\": \"string\"}]}"},
	{"not-empty-array", "{\"type\": \"string\", \"not\": []}"},
	{"additional-properties-empty-array", "{\"type\": \"object\", \"additionalProperties\": []}"},
	{"property-is-empty-array", "{\"type\": \"object\", \"properties\": {\"a\": []}}"},
	{"properties-is-array", "{\"type\": \"object\", \"properties\": []}"},
	{"properties-is-string", "{\"type\": \"object\", \"properties\": \"a\"}"},
	{"required-is-string", "{\"type\": \"object\", \"properties\": {\"a\": {\"type\": \"string\"}}, \"required\": \"a\"}"},
	{"required-is-true", "{\"type\": \"object\", \"properties\": {\"a\": {\"type\": \"string\"}}, \"required\": true}"},
	{"enum-is-object", "{\"type\": \"string\", \"enum\": {\"a\": 1}}"},
	{"enum-is-string", "{\"type\": \"string\", \"enum\": \"a\"}"},
	{"type-is-number", "{\"type\": 7}"},
	{"type-is-object", "{\"type\": {\"a\": 1}}"},
	{"type-list-of-numbers", "{\"type\": [1, 2]}"},
	{"allof-is-object", "{\"allOf\": {\"type\": \"string\"}}"},
	{"allof-empty", "{\"type\": \"object\", \"allOf\": []}"},
	{"anyof-empty", "{\"type\": \"object\", \"anyOf\": []}"},
	{"anyof-of-one", "{\"anyOf\": [{\"type\": \"string\"}]}"},
	{"minlength-is-string", "{\"type\": \"string\", \"minLength\": \"3\"}"},
	{"minimum-is-string", "{\"type\": \"integer\", \"minimum\": \"3\"}"},
	{"maxitems-fractional", "{\"type\": \"array\", \"items\": {\"type\": \"string\"}, \"maxItems\": 2.5}"},
	{"minlength-negative", "{\"type\": \"string\", \"minLength\": -1}"},
	{"pattern-invalid", "{\"type\": \"string\", \"pattern\": \"(\"}"},
	{"defs-is-array", "{\"type\": \"object\", \"$defs\": []}"},
	{"ref-is-number", "{\"$ref\": 5}"},
	{"title-is-number", "{\"type\": \"string\", \"title\": 5}"},
	{"description-is-array", "{\"type\": \"string\", \"description\": [\"a\"]}"},
	{"format-is-number", "{\"type\": \"string\", \"format\": 1}"},
	// multipleOf on integers with steps that binary floating point cannot hold exactly, tiny ones among them: whatever the
	// generator computes from them, it computes in bounded time (seeded change s116: "the smallest whole multiple", found
	// by repeated addition until the sum is a whole number)
	{"integer-multipleof-nano", "{\"type\": \"integer\", \"multipleOf\": 1e-9}"},
	{"integer-multipleof-tenth", "{\"type\": \"integer\", \"multipleOf\": 0.1}"},
	{"integer-multipleof-third", "{\"type\": \"integer\", \"multipleOf\": 0.3333333333333333}"},
	{"integer-multipleof-huge", "{\"type\": \"integer\", \"multipleOf\": 1e300}"},
	{"number-multipleof-nano", "{\"type\": \"number\", \"multipleOf\": 1e-9, \"default\": 0.5}"},
	{"integer-multipleof-zero", "{\"type\": \"integer\", \"multipleOf\": 0}"},
	{"integer-multipleof-negative", "{\"type\": \"integer\", \"multipleOf\": -2.5}"},
	{"integer-bound-fractional", "{\"type\": \"integer\", \"minimum\": 0.5, \"maximum\": 9.5}"},
	{"integer-exclusive-bound-fractional", "{\"type\": \"integer\", \"exclusiveMinimum\": 0.5, \"exclusiveMaximum\": 9.25}"},
	{"empty-type-list", "{\"type\": []}"},
	{"type-empty-string", "{\"type\": \"\"}"},
	{"three-types", "{\"type\": [\"string\", \"integer\", \"null\"]}"},
	{"null-and-null", "{\"type\": [\"null\", \"null\"]}"},
	{"items-true", "{\"type\": \"array\", \"items\": true}"},
	{"items-false", "{\"type\": \"array\", \"items\": false}"},
	{"array-without-items", "{\"type\": \"array\"}"},
	{"array-min-gt-max", "{\"type\": \"array\", \"items\": {\"type\": \"string\"}, \"minItems\": 5, \"maxItems\": 2}"},
	{"required-missing-property", "{\"type\": \"object\", \"properties\": {\"a\": {\"type\": \"string\"}}, \"required\": [\"a\", \"ghost\"]}"},
	{"required-on-empty-object", "{\"type\": \"object\", \"required\": [\"ghost\"]}"},
	{"required-duplicate", "{\"type\": \"object\", \"properties\": {\"a\": {\"type\": \"string\"}}, \"required\": [\"a\", \"a\"]}"},
	{"enum-null-only", "{\"enum\": [null]}"},
	{"enum-null-typed", "{\"type\": \"null\", \"enum\": [null]}"},
	{"enum-bool", "{\"type\": \"boolean\", \"enum\": [true]}"},
	{"enum-number-fraction", "{\"type\": \"number\", \"enum\": [1.5, 2.25]}"},
	{"enum-integer-with-fraction", "{\"type\": \"integer\", \"enum\": [1.5]}"},
	{"enum-duplicate-values", "{\"type\": \"string\", \"enum\": [\"a\", \"a\"]}"},
	{"enum-odd-strings", "{\"type\": \"string\", \"enum\": [\"\", \" \", \"a b\", \"1\", \"-\", \"ü\", \"a\\\"b\"]}"},
	{"addl-multi-type", "{\"type\": \"object\", \"additionalProperties\": {\"type\": [\"string\", \"integer\"]}}"},
	{"addl-array", "{\"type\": \"object\", \"properties\": {\"a\": {\"type\": \"string\"}}, \"additionalProperties\": {\"type\": \"array\", \"items\": {\"type\": \"string\"}}}"},
	{"addl-nested-object", "{\"type\": \"object\", \"additionalProperties\": {\"type\": \"object\", \"additionalProperties\": {\"type\": \"integer\"}}}"},
	{"deep-arrays", "{\"type\": \"array\", \"items\": {\"type\": \"array\", \"items\": {\"type\": \"array\", \"items\": {\"type\": \"array\", \"items\": {\"type\": \"array\", \"items\": {\"type\": \"integer\", \"minimum\": 1}}}}}}"},
	{"default-wrong-type", "{\"type\": \"integer\", \"default\": \"seven\"}"},
	{"default-object", "{\"type\": \"object\", \"properties\": {\"a\": {\"type\": \"string\"}}, \"default\": {\"a\": \"x\"}}"},
	{"default-array", "{\"type\": \"array\", \"items\": {\"type\": \"string\"}, \"default\": [\"a\", \"b\"]}"},
	{"default-null", "{\"type\": [\"string\", \"null\"], \"default\": null}"},
	{"default-on-enum-not-member", "{\"type\": \"string\", \"enum\": [\"a\", \"b\"], \"default\": \"zzz\"}"},
	{"bounds-crossed", "{\"type\": \"integer\", \"minimum\": 10, \"maximum\": 1}"},
	{"bounds-huge", "{\"type\": \"integer\", \"minimum\": -1e+30, \"maximum\": 1e+30}"},
	{"bounds-fraction-on-integer", "{\"type\": \"integer\", \"minimum\": 0.5, \"maximum\": 2.5, \"multipleOf\": 0.5}"},
	{"multipleof-zero", "{\"type\": \"number\", \"multipleOf\": 0}"},
	{"multipleof-negative", "{\"type\": \"integer\", \"multipleOf\": -3}"},
	{"exclusive-min-bool-no-bound", "{\"type\":\"integer\",\"exclusiveMinimum\":true}"},
	{"exclusive-max-bool-no-bound", "{\"type\":\"integer\",\"exclusiveMaximum\":true}"},
	{"exclusive-max-bool-other-bound", "{\"type\":\"integer\",\"exclusiveMaximum\":true,\"minimum\":1}"},
	{"exclusive-bool-number-no-bound", "{\"type\":\"number\",\"exclusiveMinimum\":true,\"exclusiveMaximum\":true}"},
	{"exclusive-num-only", "{\"type\":\"integer\",\"exclusiveMinimum\":3,\"exclusiveMaximum\":300}"},
	{"bounds-only-max-negative", "{\"type\":\"integer\",\"maximum\":-1}"},
	{"bounds-uint64-edge", "{\"type\":\"integer\",\"minimum\":0,\"maximum\":18446744073709551615}"},
	{"exclusive-bool-draft4", "{\"type\": \"number\", \"minimum\": 1, \"exclusiveMinimum\": true, \"maximum\": 9, \"exclusiveMaximum\": false}"},
	{"length-negative", "{\"type\": \"string\", \"minLength\": -1}"},
	{"length-crossed", "{\"type\": \"string\", \"minLength\": 9, \"maxLength\": 2}"},
	{"pattern-invalid-regexp", "{\"type\": \"string\", \"pattern\": \"([a-z\"}"},
	{"pattern-backquote", "{\"type\": \"string\", \"pattern\": \"^`+$\"}"},
	{"format-unknown", "{\"type\": \"string\", \"format\": \"no-such-format\"}"},
	{"format-on-integer", "{\"type\": \"integer\", \"format\": \"date-time\"}"},
	{"very-long-name", "{\"type\": \"object\", \"properties\": {\"very_long_property_name_very_long_property_name_very_long_property_name_very_long_property_name_very_long_property_name_very_long_property_name_very_long_property_name_very_long_property_name_very_long_property_name_very_long_property_name_very_long_property_name_very_long_property_name_very_long_property_name_very_long_property_name_very_long_property_name_very_long_property_name_very_long_property_name_very_long_property_name_very_long_property_name_very_long_property_name_very_long_property_name_very_long_property_name_very_long_property_name_very_long_property_name_very_long_property_name_very_long_property_name_very_long_property_name_very_long_property_name_very_long_property_name_very_long_property_name_very_long_property_name_very_long_property_name_very_long_property_name_very_long_property_name_very_long_property_name_very_long_property_name_very_long_property_name_very_long_property_name_very_long_property_name_very_long_property_name_\": {\"type\": \"string\"}}}"},
	{"odd-property-names", "{\"type\": \"object\", \"properties\": {\"\": {\"type\": \"string\"}, \"*\": {\"type\": \"string\"}, \"1st\": {\"type\": \"string\"}, \"a.b\": {\"type\": \"string\"}, \"type\": {\"type\": \"string\"}, \"func\": {\"type\": \"string\"}, \"日本\": {\"type\": \"string\"}, \"_\": {\"type\": \"string\"}}}"},
	{"go-keyword-names", "{\"type\": \"object\", \"properties\": {\"map\": {\"type\": \"object\", \"properties\": {\"chan\": {\"type\": \"integer\"}}}, \"interface\": {\"type\": \"string\"}}}"},
	{"not-keyword", "{\"not\": {\"type\": \"string\"}}"},
	{"oneof", "{\"oneOf\": [{\"type\": \"string\"}, {\"type\": \"integer\"}]}"},
	{"anyof-empty", "{\"anyOf\": []}"},
	{"allof-empty", "{\"allOf\": []}"},
	{"allof-single-primitive", "{\"allOf\": [{\"type\": \"string\"}]}"},
	{"anyof-primitives-only", "{\"anyOf\": [{\"type\": \"string\"}, {\"type\": \"integer\"}]}"},
	{"allof-object-and-array", "{\"allOf\": [{\"type\": \"object\", \"properties\": {\"a\": {\"type\": \"string\"}}}, {\"type\": \"array\", \"items\": {\"type\": \"string\"}}]}"},
	{"anyof-with-enum-branch", "{\"anyOf\": [{\"enum\": [\"a\", \"b\"]}, {\"type\": \"object\", \"properties\": {\"q\": {\"type\": \"string\"}}}]}"},
	{"nested-defs", "{\"type\": \"object\", \"properties\": {\"a\": {\"type\": \"string\"}}, \"$defs\": {\"Inner\": {\"type\": \"integer\"}}}"},
	{"gojsonschema-type", "{\"type\": \"string\", \"goJSONSchema\": {\"type\": \"time.Duration\", \"imports\": [\"time\"]}}"},
	{"gojsonschema-identifier", "{\"type\": \"string\", \"goJSONSchema\": {\"identifier\": \"Renamed\"}}"},
	{"gojsonschema-empty", "{\"type\": \"string\", \"goJSONSchema\": {}}"},
	{"title-odd", "{\"type\": \"object\", \"title\": \"  /* weird */ title\\n\", \"properties\": {\"a\": {\"type\": \"string\"}}}"},
	{"description-comment-close", "{\"type\": \"string\", \"description\": \"ends a comment */ and `backquotes` and \\\\ backslash\\r\\nCRLF\"}"},
	{"const-keyword", "{\"const\": \"fixed\"}"},
	{"boolean-false-schema", "false"},
	{"dependencies-legacy", "{\"type\": \"object\", \"properties\": {\"a\": {\"type\": \"string\"}}, \"dependencies\": {\"a\": {\"type\": \"object\"}}}"},
	{"pattern-properties", "{\"type\": \"object\", \"patternProperties\": {\"^x-\": {\"type\": \"string\"}}}"},
	{"ref-with-siblings", "{\"$ref\": \"#/$defs/OddTarget\", \"description\": \"sibling\", \"type\": \"object\"}"},
	{"ref-to-primitive-def", "{\"$ref\": \"#/$defs/OddPrim\"}"},
	{"ref-pointer-escapes", "{\"$ref\": \"#/$defs/Odd~1Name\"}"},
	{"ref-to-definitions-root", "{\"$ref\": \"#/$defs\"}"},
	{"ref-empty-fragment-path", "{\"$ref\": \"#/\"}"},
	{"ref-url-encoded", "{\"$ref\": \"#/$defs/Odd%20Target\"}"},
	{"ref-bad-url", "{\"$ref\": \"http://[::1\"}"},
	{"enum-bool-untyped", "{\"enum\": [true, false]}"},
	{"enum-mixed-untyped", "{\"enum\": [1, \"a\", null, true, 2.5]}"},
	{"enum-two-types", "{\"type\": [\"string\", \"integer\"], \"enum\": [\"a\", 1]}"},
	{"enum-nullable-typed", "{\"type\": [\"string\", \"null\"], \"enum\": [\"a\", null]}"},
	{"addl-default-string", "{\"type\": \"object\", \"additionalProperties\": {\"type\": \"string\"}, \"default\": {\"k\": \"v\"}}"},
	{"addl-default-integer", "{\"type\": \"object\", \"additionalProperties\": {\"type\": \"integer\"}, \"default\": {\"k\": 1}}"},
	{"addl-default-number", "{\"type\": \"object\", \"additionalProperties\": {\"type\": \"number\"}, \"default\": {\"k\": 1.5}}"},
	{"addl-default-boolean", "{\"type\": \"object\", \"additionalProperties\": {\"type\": \"boolean\"}, \"default\": {\"k\": true}}"},
	{"addl-default-array", "{\"type\": \"object\", \"additionalProperties\": {\"type\": \"array\", \"items\": {\"type\": \"string\"}}, \"default\": {\"k\": [\"v\"]}}"},
	{"addl-default-object", "{\"type\": \"object\", \"additionalProperties\": {\"type\": \"object\"}, \"default\": {\"k\": {}}}"},
	{"addl-default-multi", "{\"type\": \"object\", \"additionalProperties\": {\"type\": [\"string\", \"null\"]}, \"default\": {\"k\": null}}"},
	{"addl-default-wrong", "{\"type\": \"object\", \"additionalProperties\": {\"type\": \"integer\"}, \"default\": \"oops\"}"},
	{"addl-true", "{\"type\": \"object\", \"properties\": {\"a\": {\"type\": \"string\"}}, \"additionalProperties\": true}"},
	{"addl-ref", "{\"type\": \"object\", \"additionalProperties\": {\"$ref\": \"#/$defs/OddTarget\"}}"},
	{"addl-untyped", "{\"type\": \"object\", \"additionalProperties\": {}}"},
	{"anyof-refs-different-types", "{\"anyOf\": [{\"$ref\": \"#/$defs/OddPrim\"}, {\"$ref\": \"#/$defs/OddTarget\"}]}"},
	{"allof-refs-different-types", "{\"allOf\": [{\"$ref\": \"#/$defs/OddPrim\"}, {\"$ref\": \"#/$defs/OddTarget\"}]}"},
	{"anyof-same-prim-refs", "{\"anyOf\": [{\"$ref\": \"#/$defs/OddPrim\"}, {\"$ref\": \"#/$defs/OddPrim\"}]}"},
	{"anyof-ref-and-null", "{\"anyOf\": [{\"$ref\": \"#/$defs/OddTarget\"}, {\"type\": \"null\"}]}"},
	{"allof-typed-string-branches", "{\"type\": \"string\", \"allOf\": [{\"minLength\": 1}, {\"maxLength\": 5}]}"},
	{"anyof-arrays", "{\"anyOf\": [{\"type\": \"array\", \"items\": {\"type\": \"string\"}}, {\"type\": \"array\", \"items\": {\"type\": \"integer\"}}]}"},
	{"anyof-nested-anyof", "{\"anyOf\": [{\"anyOf\": [{\"type\": \"object\", \"properties\": {\"p\": {\"type\": \"string\"}}}, {\"type\": \"object\", \"properties\": {\"q\": {\"type\": \"string\"}}}]}, {\"type\": \"object\", \"properties\": {\"r\": {\"type\": \"string\"}}}]}"},
	{"allof-nested-allof", "{\"allOf\": [{\"allOf\": [{\"type\": \"object\", \"properties\": {\"p\": {\"type\": \"string\"}}, \"required\": [\"p\"]}]}, {\"type\": \"object\", \"properties\": {\"r\": {\"type\": \"integer\"}}}]}"},
	{"yaml-nonstring-keys", "{\"type\": \"object\", \"properties\": {\"~yamlraw~1\": {\"type\": \"string\"}, \"~yamlraw~true\": {\"type\": \"integer\"}, \"~yamlraw~2.5\": {\"type\": \"boolean\"}, \"~yamlraw~null\": {\"type\": \"string\"}}}"},
	{"title-only", "{\"title\": \"Only A Title\"}"},
	{"object-title-empty", "{\"type\": \"object\", \"title\": \"\", \"properties\": {\"a\": {\"type\": \"string\"}}}"},
	{"enum-title-only-name", "{\"title\": \"!!!\", \"type\": \"string\", \"enum\": [\"x\"]}"},
	{"property-name-symbols-only", "{\"type\": \"object\", \"properties\": {\"!!!\": {\"type\": \"string\", \"enum\": [\"x\"]}, \"???\": {\"type\": \"object\", \"properties\": {\"a\": {\"type\": \"string\"}}}}}"},
	{"min-items-only", "{\"type\": \"array\", \"items\": {\"type\": \"string\"}, \"minItems\": 0, \"maxItems\": 0}"},
	{"readonly-writeonly", "{\"type\": \"string\", \"readOnly\": true, \"writeOnly\": true, \"deprecated\": true, \"examples\": [1, {}]}"},
	{"ref-https", "{\"$ref\": \"https://example.com/s/none.json\"}"},
	// remote documents behind redirects: a finite chain ends at the document, a cycle or an endless chain must end in a
	// failure (the standard client gives up after ten hops) - never in a run that goes on for ever (seeded change s100:
	// a redirect policy of its own, which silently replaces the default one and its limit)
	{"ref-web-redirect-chain", "{\"$ref\": \"http://odd.example/hop1.json\"}"},
	{"ref-web-redirect-cycle", "{\"$ref\": \"http://odd.example/loop-a.json\"}"},
	{"ref-web-redirect-self", "{\"$ref\": \"http://odd.example/self.json#/$defs/X\"}"},
	{"ref-web-redirect-no-location", "{\"$ref\": \"http://odd.example/nowhere.json\"}"},
	{"ref-web-redirect-to-missing", "{\"$ref\": \"http://odd.example/gone.json\"}"},
	{"ref-file-without-root", "{\"$ref\": \"oddrootless.json\"}"},
	{"ref-file-without-root-fragment", "{\"$ref\": \"oddrootless.json#/$defs/OnlyDef\"}"},
	{"ref-file-empty-object", "{\"$ref\": \"oddempty.json\"}"},
	{"ref-file-array-root", "{\"$ref\": \"oddarray.json\"}"},
	{"ref-file-true-root", "{\"$ref\": \"oddtrue.json\"}"},
	{"ref-file-id-only", "{\"$ref\": \"oddidonly.yaml\"}"},
	{"ref-file-yaml-alias-bomb", "{\"$ref\": \"oddbomb.yaml\"}"},
	{"default-object-empty-key", "{\"type\": \"object\", \"properties\": {\"b\": {\"type\": \"string\"}}, \"default\": {\"\": 1}}"},
	{"default-object-odd-keys", "{\"type\": \"object\", \"properties\": {\"b\": {\"type\": \"string\"}}, \"default\": {\"b\": \"x\", \"1st\": 2, \"a-b\": null, \"\u00fc\": true}}"},
	{"default-object-unknown-key", "{\"type\": \"object\", \"properties\": {\"b\": {\"type\": \"string\"}}, \"default\": {\"ghost\": {\"deep\": [1, {}]}}}"},
	{"default-nested-empty-key", "{\"type\": \"object\", \"properties\": {\"b\": {\"type\": \"object\", \"properties\": {\"c\": {\"type\": \"integer\"}}}}, \"default\": {\"b\": {\"\": 0}}}"},
	{"default-array-of-objects-empty-key", "{\"type\": \"array\", \"items\": {\"type\": \"object\", \"properties\": {\"c\": {\"type\": \"integer\"}}}, \"default\": [{\"\": 0}]}"},
	{"integer-default-fractional-multipleof", "{\"type\": \"integer\", \"default\": 4, \"multipleOf\": 0.5}"},
	{"integer-default-small-multipleof", "{\"type\": [\"integer\", \"null\"], \"default\": 1, \"multipleOf\": 0.01, \"minimum\": 0}"},
	{"integer-default-violates-bounds", "{\"type\": \"integer\", \"default\": 99, \"minimum\": 1, \"maximum\": 5, \"multipleOf\": 2}"},
	{"number-default-violates-bounds", "{\"type\": \"number\", \"default\": -1.5, \"exclusiveMinimum\": 0, \"multipleOf\": 0.1}"},
	{"string-default-violates-constraints", "{\"type\": \"string\", \"default\": \"x\", \"minLength\": 3, \"maxLength\": 2, \"pattern\": \"^[0-9]+$\"}"},
	{"array-default-violates-constraints", "{\"type\": \"array\", \"items\": {\"type\": \"integer\"}, \"default\": [1], \"minItems\": 2}"},
	{"enum-symbols-only", "{\"type\": \"string\", \"enum\": [\"<\", \"<=\", \">=\", \"==\", \"&&\", \"||\", \"<>\"]}"},
	{"ref-unsupported-scheme", "{\"$ref\": \"ftp://example.com/x.json\"}"},
}

var oddities = func() []struct {
	name string
	v    any
} {
	var out []struct {
		name string
		v    any
	}
	for _, o := range oddityTexts {
		v, err := ParseOrdered([]byte(o.json))
		if err != nil {
			panic(o.name + ": " + err.Error())
		}
		out = append(out, struct {
			name string
			v    any
		}{o.name, v})
	}
	return out
}()

// oddWeb: the simulated web of the redirect oddities.
func oddWeb() []simrt.WebEnt {
	doc := []byte(`{"type": "object", "properties": {"x": {"type": "string"}}, "$defs": {"X": {"type": "string"}}}`)
	r := func(from, to string) simrt.WebEnt {
		return simrt.WebEnt{URL: "http://odd.example/" + from, Status: 302, Location: to, ContentType: "text/html", Body: []byte("<a href=\"" + to + "\">Found</a>.\n")}
	}
	return []simrt.WebEnt{
		r("hop1.json", "/hop2.json"), r("hop2.json", "http://odd.example/hop3.json"), r("hop3.json", "final.json"),
		{URL: "http://odd.example/final.json", ContentType: "application/json", Body: doc},
		r("loop-a.json", "/loop-b.json"), r("loop-b.json", "/loop-a.json"),
		r("self.json", "/self.json"),
		{URL: "http://odd.example/nowhere.json", Status: 302, ContentType: "text/html", Body: []byte("Found\n")},
		r("gone.json", "/no-such-document.json"),
	}
}

// oddFiles: small documents for the whole-file reference oddities, placed next to the referring document.
func oddFiles(dir string) []simrt.Node {
	mk := func(n, body string) simrt.Node {
		return simrt.Node{Path: filepath.Join(dir, n), Kind: "f", Data: []byte(body)}
	}
	return []simrt.Node{
		mk("oddrootless.json", `{"$defs": {"OnlyDef": {"type": "string"}}}`),
		mk("oddempty.json", `{}`),
		mk("oddarray.json", `[]`),
		mk("oddtrue.json", `true`),
		mk("oddidonly.yaml", "$id: https://example.com/oddidonly\ndefinitions:\n  A:\n    type: integer\n"),
		mk("oddbomb.yaml", yamlAliasBomb(8)),
	}
}

// yamlAliasBomb: a valid little schema with an ignored "x-" key holding nested aliases (9^levels nodes once expanded;
// the file itself is a few hundred bytes).
func yamlAliasBomb(levels int) string {
	var b strings.Builder
	b.WriteString("type: object\nproperties:\n  a: {type: string}\nx-bomb:\n  a0: &a0 [x,x,x,x,x,x,x,x,x]\n")
	for i := 1; i <= levels; i++ {
		fmt.Fprintf(&b, "  a%d: &a%d [", i, i)
		for j := 0; j < 9; j++ {
			if j > 0 {
				b.WriteString(",")
			}
			fmt.Fprintf(&b, "*a%d", i-1)
		}
		b.WriteString("]\n")
	}
	return b.String()
}

func genOddities(t *rapid.T, w *World, args []string, add addFn) {
	afs := argFiles(w, args)
	if len(afs) == 0 {
		return
	}
	f := afs[rapid.IntRange(0, len(afs)-1).Draw(t, "ofile")]
	n := rapid.IntRange(1, 3).Draw(t, "nodd")
	doc := cloneObj(f.Doc)
	// targets for the ref oddities
	doc = withDef(doc, "OddTarget", Obj{{"type", "object"}, {"properties", Obj{{"x", Obj{{"type", "string"}}}}}})
	doc = withDef(doc, "OddPrim", Obj{{"type", "string"}, {"minLength", 2}})
	var names []string
	for i := 0; i < n; i++ {
		o := oddities[rapid.IntRange(0, len(oddities)-1).Draw(t, "odd")]
		if o.name == "ref-file-yaml-alias-bomb" {
			o = oddities[0] // known finding KF-C18-2: kept in view by one battery run, not re-found in combinations
		}
		names = append(names, o.name)
		pos := rapid.SampledFrom([]string{"prop", "prop", "def", "item", "nested", "required-prop", "def-ref", "addl", "allof-branch", "anyof-branch"}).Draw(t, "oddpos")
		pname := fmt.Sprintf("odd%d", i)
		switch pos {
		case "prop":
			doc = addProp(doc, pname, o.v)
		case "def":
			doc = withDef(doc, fmt.Sprintf("OddDef%d", i), o.v)
		case "item":
			doc = addProp(doc, pname, Obj{{"type", "array"}, {"items", o.v}})
		case "nested":
			doc = addProp(doc, pname, Obj{{"type", "object"}, {"properties", Obj{{"inner", o.v}}}, {"required", []any{"inner"}}})
		case "def-ref":
			doc = withDef(doc, fmt.Sprintf("OddDef%d", i), o.v)
			doc = addProp(doc, pname, Obj{{"$ref", fmt.Sprintf("#/$defs/OddDef%d", i)}})
			doc = addProp(doc, pname+"again", Obj{{"type", "array"}, {"items", Obj{{"$ref", fmt.Sprintf("#/$defs/OddDef%d", i)}}}})
		case "addl":
			doc = addProp(doc, pname, Obj{{"type", "object"}, {"additionalProperties", o.v}})
		case "allof-branch":
			doc = addProp(doc, pname, Obj{{"allOf", []any{Obj{{"type", "object"}, {"properties", Obj{{"inner", o.v}}}}, Obj{{"type", "object"}, {"properties", Obj{{"other", Obj{{"type", "string"}}}}}}}}})
		case "anyof-branch":
			doc = addProp(doc, pname, Obj{{"anyOf", []any{Obj{{"type", "object"}, {"properties", Obj{{"other", Obj{{"type", "string"}}}}}}, Obj{{"type", "object"}, {"properties", Obj{{"inner", o.v}}}}}}})
		case "required-prop":
			doc = addProp(doc, pname, o.v)
			if ty, _ := doc.Get("type"); ty == "object" {
				req, _ := doc.Get("required")
				ra, _ := req.([]any)
				doc = doc.Set("required", append(append([]any{}, ra...), pname))
			}
		}
	}
	sort.Strings(names)
	nf := *f
	nf.Doc = doc
	abs := filepath.Join(w.Root, f.Rel())
	spec := w.Spec("", nil, args)
	spec.FS = append(spec.FS, oddFiles(filepath.Dir(abs))...)
	spec.Web = append(spec.Web, oddWeb()...)
	for i := range spec.FS {
		if spec.FS[i].Path == abs {
			spec.FS[i].Data = subst(nf.Bytes(nil), "", w.Root)
		}
	}
	add("odd "+strings.Join(names, ","), spec, c18Run{Kind: "odd", What: strings.Join(names, "+"), Ref: -1})
}
